//! Hierarchy: replay of the maps explored by TLC (spec/Hierarchy.tla) into the real path map.
use crate::util::*;
use qrlew::hierarchy::Hierarchy;
use serde_json::{json, Value as J};

fn letter(i: u64) -> String {
    ((b'a' + (i as u8 - 1)) as char).to_string()
}
fn path_of(j: &J) -> Vec<String> {
    j.as_array().unwrap().iter().map(|c| letter(c.as_u64().unwrap())).collect()
}
fn path_json(p: &[String]) -> J {
    J::Array(p.iter().map(|s| json!((s.as_bytes()[0] - b'a' + 1) as u64)).collect())
}
fn entries_json(h: &Hierarchy<i64>) -> J {
    J::Array(h.iter().map(|(p, o)| json!({"path": path_json(p), "obj": o})).collect())
}

pub fn replay(args: &[String]) -> i32 {
    let maxlen: usize = arg_value(args, "--maxlen").map(|s| s.parse().unwrap()).unwrap_or(2);
    let alphabet: u64 = arg_value(args, "--alphabet").map(|s| s.parse().unwrap()).unwrap_or(2);
    // every lookup path of length 0..maxlen+1
    let mut lookups: Vec<Vec<u64>> = vec![vec![]];
    let mut frontier: Vec<Vec<u64>> = vec![vec![]];
    for _ in 0..=maxlen {
        let mut next = vec![];
        for p in &frontier {
            for c in 1..=alphabet {
                let mut q = p.clone();
                q.push(c);
                next.push(q);
            }
        }
        lookups.extend(next.iter().cloned());
        frontier = next;
    }
    let mut out = Out::new();
    for case in read_cases() {
        let obs = guarded(|| {
            let h: Hierarchy<i64> = case["entries"].as_array().unwrap().iter().map(|e| (path_of(&e["path"]), e["obj"].as_i64().unwrap())).collect();
            let mut ls = vec![];
            for p in &lookups {
                let path: Vec<String> = p.iter().map(|c| letter(*c)).collect();
                let r = h.get_key_value(&path);
                let g = h.get(&path);
                ls.push(match r {
                    Some((k, o)) => json!({"p": p, "found": true, "path": path_json(k), "obj": o, "get_agrees": g == Some(o)}),
                    None => json!({"p": p, "found": false, "path": [], "obj": 0, "get_agrees": g.is_none()}),
                });
            }
            let mut fs = vec![];
            let mut ps = vec![];
            for c in 1..=alphabet {
                fs.push(json!({"prefix": [c], "entries": entries_json(&h.filter(&[letter(c)]))}));
                ps.push(json!({"head": [c], "entries": entries_json(&h.clone().prepend(&[letter(c)]))}));
            }
            json!({"entries": case["entries"], "lookups": ls, "filters": fs, "prepends": ps, "panic": false})
        });
        out.put(&obs.unwrap_or_else(|p| json!({"entries": case["entries"], "lookups": [], "filters": [], "prepends": [], "panic": true, "msg": p})));
    }
    out.flush();
    0
}
