//! Differential-privacy and privacy-unit-tracking engine: compile a query with the real rewriting
//! entry points, locate the mechanisms in the real rewritten relation, execute it (and its pre-noise
//! sub-relations) on several databases with controlled random sources.
use crate::sqlx::*;
use crate::util::*;
use qrlew::{
    builder::With,
    differential_privacy::{DpEvent, DpParameters},
    expr::{function::Function, Expr},
    privacy_unit_tracking::{privacy_unit::PrivacyUnit, Strategy},
    relation::{Relation, Variant as _},
    sql::parse,
};
use serde_json::{json, Value as J};

fn dp_event_json(e: &DpEvent) -> J {
    match e {
        DpEvent::NoOp => json!({"k": "NoOp"}),
        DpEvent::Gaussian { noise_multiplier } => json!({"k": "Gaussian", "nm": noise_multiplier}),
        DpEvent::Laplace { noise_multiplier } => json!({"k": "Laplace", "nm": noise_multiplier}),
        DpEvent::EpsilonDelta { epsilon, delta } => json!({"k": "EpsilonDelta", "epsilon": epsilon, "delta": delta}),
        DpEvent::Composed { events } => json!({"k": "Composed", "events": events.iter().map(dp_event_json).collect::<Vec<_>>()}),
        other => json!({"k": "Other", "debug": format!("{:?}", other)}),
    }
}

fn has_random(e: &Expr) -> bool {
    match e {
        Expr::Function(f) => matches!(f.function(), Function::Random(_)) || f.arguments().iter().any(has_random),
        Expr::Aggregate(a) => has_random(a.argument()),
        _ => false,
    }
}

fn num_value(e: &Expr) -> Option<f64> {
    match e {
        Expr::Value(v) => match v {
            qrlew::data_type::value::Value::Float(f) => Some(**f),
            qrlew::data_type::value::Value::Integer(i) => Some(**i as f64),
            _ => None,
        },
        _ => None,
    }
}

/// sigma of `... + sigma * noise`: the numeric literal multiplying a sub-expression that draws randomness
fn sigma_of(e: &Expr) -> Option<f64> {
    match e {
        Expr::Function(f) => {
            let args = f.arguments();
            if matches!(f.function(), Function::Multiply) && args.len() == 2 {
                if let (Some(v), true) = (num_value(&args[0]), has_random(&args[1])) {
                    return Some(v);
                }
                if let (true, Some(v)) = (has_random(&args[0]), num_value(&args[1])) {
                    return Some(v);
                }
            }
            args.iter().filter(|a| has_random(a)).find_map(sigma_of)
        }
        _ => None,
    }
}

/// `col > tau` atoms of a filter
fn thresholds(e: &Expr, out: &mut Vec<(String, f64)>) {
    if let Expr::Function(f) = e {
        let args = f.arguments();
        if matches!(f.function(), Function::Gt | Function::GtEq) && args.len() == 2 {
            if let (Expr::Column(c), Some(v)) = (&args[0], num_value(&args[1])) {
                out.push((c.last().unwrap_or("").to_string(), v));
            }
        }
        for a in &args {
            thresholds(a, out);
        }
    }
}

fn privacy_unit_of(j: &J, hash: bool) -> PrivacyUnit {
    let v: Vec<(String, Vec<(String, String, String)>, String, Option<String>)> = j
        .as_array()
        .unwrap()
        .iter()
        .map(|e| {
            (
                e[0].as_str().unwrap().to_string(),
                e[1].as_array().unwrap().iter().map(|s| (s[0].as_str().unwrap().to_string(), s[1].as_str().unwrap().to_string(), s[2].as_str().unwrap().to_string())).collect(),
                e[2].as_str().unwrap().to_string(),
                e.get(3).and_then(|w| w.as_str()).map(|s| s.to_string()),
            )
        })
        .collect();
    let with_weight = v.iter().any(|e| e.3.is_some());
    if with_weight {
        let vv: Vec<(&str, Vec<(&str, &str, &str)>, &str, &str)> = v
            .iter()
            .map(|(t, p, f, w)| (t.as_str(), p.iter().map(|(a, b, c)| (a.as_str(), b.as_str(), c.as_str())).collect(), f.as_str(), w.as_deref().unwrap_or("")))
            .collect();
        PrivacyUnit::from((vv, hash))
    } else {
        let vv: Vec<(&str, Vec<(&str, &str, &str)>, &str)> =
            v.iter().map(|(t, p, f, _)| (t.as_str(), p.iter().map(|(a, b, c)| (a.as_str(), b.as_str(), c.as_str())).collect(), f.as_str())).collect();
        PrivacyUnit::from((vv, hash))
    }
}

fn with_rows(tables: &J, rows: &J) -> J {
    J::Array(
        tables
            .as_array()
            .unwrap()
            .iter()
            .map(|t| {
                let mut t = t.clone();
                if let Some(r) = rows.get(t["name"].as_str().unwrap()) {
                    t["rows"] = r.clone();
                }
                t
            })
            .collect(),
    )
}

fn run_case(case: &J) -> J {
    let mut obs = json!({"id": case["id"], "sql": case["sql"], "mode": case["mode"]});
    let tables = &case["tables"];
    let relations = relations_of(tables);
    let sql = case["sql"].as_str().unwrap();
    let pu = privacy_unit_of(&case["pu"], case["hash_pu"].as_bool().unwrap_or(true));
    let p = &case["params"];
    let f = |k: &str, d: f64| p.get(k).and_then(|x| x.as_f64()).unwrap_or(d);
    let dp = DpParameters::new(f("epsilon", 1.0), f("delta", 1e-3), f("tau_share", 0.5), f("max_mult", 100.0), f("max_mult_share", 0.1), p.get("max_groups").and_then(|x| x.as_u64()).unwrap_or(5));
    let strategy = if case["strategy"] == "Soft" { Strategy::Soft } else { Strategy::Hard };
    let mut stages = serde_json::Map::new();
    let relation = match guarded(|| parse(sql).map(|q| Relation::try_from(q.with(&relations)))) {
        Ok(Ok(Ok(r))) => r,
        Ok(Ok(Err(e))) => {
            stages.insert("build".into(), json!(format!("err:{e}")));
            obs["stages"] = J::Object(stages);
            return obs;
        }
        Ok(Err(e)) => {
            stages.insert("parse".into(), json!(format!("err:{e}")));
            obs["stages"] = J::Object(stages);
            return obs;
        }
        Err(pn) => {
            stages.insert("build".into(), json!(format!("panic:{pn}")));
            obs["stages"] = J::Object(stages);
            return obs;
        }
    };
    stages.insert("build".into(), json!("ok"));
    qrlew::namer::reset();
    // id 0 is the (fixed) id of the contribution-capping draw: keep the noise draws away from it
    for prefix in ["GAUSSIAN_NOISE", "SAMPLING_WITHOUT_REPLACEMENT"] {
        let _ = qrlew::namer::new_id(prefix);
    }
    qrlew::verif::install_sink(false);
    let mode = case["mode"].as_str().unwrap_or("dp");
    let rewritten = guarded(|| {
        if mode == "pup" {
            relation.rewrite_as_privacy_unit_preserving(&relations, None, pu.clone(), dp.clone(), Some(strategy))
        } else {
            relation.rewrite_with_differential_privacy(&relations, None, pu.clone(), dp.clone())
        }
    });
    let events = qrlew::verif::take_events();
    obs["events"] = J::Array(events.iter().map(|e| serde_json::from_str::<J>(&e.replace("NaN", "null").replace("inf", "1e308")).unwrap_or(json!({"raw": e}))).collect());
    let rw = match rewritten {
        Ok(Ok(rw)) => rw,
        Ok(Err(e)) => {
            stages.insert("rewrite".into(), json!(format!("err:{e}")));
            obs["stages"] = J::Object(stages);
            return obs;
        }
        Err(pn) => {
            stages.insert("rewrite".into(), json!(format!("panic:{pn}")));
            obs["stages"] = J::Object(stages);
            return obs;
        }
    };
    stages.insert("rewrite".into(), json!("ok"));
    obs["dp_event"] = dp_event_json(rw.dp_event());
    let rel = rw.relation().clone();
    obs["schema"] = schema_json(&rel);
    obs["size"] = size_json(&rel);
    let final_sql = match guarded(|| render_exec(&rel)) {
        Ok(s) => s,
        Err(pn) => {
            stages.insert("render".into(), json!(format!("panic:{pn}")));
            obs["stages"] = J::Object(stages);
            return obs;
        }
    };
    obs["rewritten_sql"] = json!(final_sql);
    // locate the mechanisms in the real rewritten relation
    struct Mech {
        name: String,
        sigmas: Vec<(String, f64)>,
        prenoise_sql: String,
        prenoise_input_sql: Option<String>,
    }
    let mut mechs: Vec<Mech> = vec![];
    let mut taus: Vec<J> = vec![];
    for n in nodes(&rel) {
        if let Relation::Map(m) = n {
            let sig: Vec<(String, f64)> = m
                .named_exprs()
                .into_iter()
                .filter(|(_, e)| has_random(e))
                .filter_map(|(name, e)| sigma_of(e).map(|s| (name.to_string(), s)))
                .collect();
            if !sig.is_empty() {
                let input = m.input();
                mechs.push(Mech {
                    name: m.name().to_string(),
                    sigmas: sig,
                    prenoise_sql: render_exec(input),
                    prenoise_input_sql: input.inputs().first().map(|i| render_exec(i)),
                });
            }
            if let Some(f) = m.filter() {
                let mut th = vec![];
                thresholds(f, &mut th);
                for (c, v) in th {
                    if c.starts_with("_COUNT_DISTINCT_PID_") {
                        taus.push(json!({"map": m.name(), "col": c, "tau": v}));
                    }
                }
            }
        }
    }
    obs["mechanisms"] = J::Array(mechs.iter().map(|m| json!({"map": m.name, "sigmas": m.sigmas})).collect());
    obs["tau_filters"] = J::Array(taus);
    // the original relation rendered by the library (executed for comparison)
    let orig_sql = render(&relation);
    // runs
    let mut runs = vec![];
    let dbs = case["dbs"].as_array().cloned().unwrap_or_else(|| vec![json!({})]);
    let randoms = case["randoms"].as_array().cloned().unwrap_or_else(|| vec![json!({"noise": 1.0, "cap_seed": 1})]);
    for (di, db) in dbs.iter().enumerate() {
        let t = with_rows(tables, db);
        for (ri, r) in randoms.iter().enumerate() {
            let mode = RandomMode::Split(r["noise"].as_f64().unwrap_or(1.0), r["cap_seed"].as_u64().unwrap_or(1));
            let mut run = json!({"db": di, "random": ri});
            match database_of(&t, mode) {
                Ok(conn) => {
                    match exec(&conn, &final_sql) {
                        Ok(rows) => run["final"] = rows_json(&rows),
                        Err(e) => run["final_err"] = json!(e),
                    }
                    if ri == 0 {
                        match exec(&conn, &orig_sql) {
                            Ok(rows) => run["original"] = rows_json(&rows),
                            Err(e) => run["original_err"] = json!(e),
                        }
                    }
                    let mut pre = vec![];
                    for m in &mechs {
                        let mut pj = json!({"map": m.name});
                        match exec(&conn, &m.prenoise_sql) {
                            Ok(rows) => pj["rows"] = rows_json(&rows),
                            Err(e) => pj["err"] = json!(e),
                        }
                        if m.sigmas.iter().any(|(c, _)| c.starts_with("_COUNT_DISTINCT_PID_")) {
                            if let Some(s) = &m.prenoise_input_sql {
                                if let Ok(rows) = exec(&conn, s) {
                                    pj["input_rows"] = rows_json(&rows);
                                }
                            }
                        }
                        pre.push(pj);
                    }
                    run["prenoise"] = J::Array(pre);
                }
                Err(e) => run["db_err"] = json!(e),
            }
            runs.push(run);
        }
    }
    obs["runs"] = J::Array(runs);
    obs["stages"] = J::Object(stages);
    obs
}

pub fn run(_args: &[String]) -> i32 {
    let cases = read_cases();
    let mut out = Out::new();
    for c in &cases {
        let o = match guarded(|| run_case(c)) {
            Ok(o) => o,
            Err(p) => json!({"id": c["id"], "sql": c["sql"], "stages": {"harness": format!("panic:{p}")}}),
        };
        out.put(&o);
    }
    out.flush();
    0
}
