//! SQLite as observation apparatus: create tiny databases, run original and rendered SQL,
//! collect rows.  UDFs supply what the rendered (PostgreSQL-flavoured) SQL uses and SQLite lacks.
use crate::dt::{dt_json, json_dt};
use crate::util::*;
use qrlew::data_type::DataTyped;
use qrlew::{
    ast,
    builder::{Ready, With},
    hierarchy::Hierarchy,
    relation::{field::Constraint, Field, Relation, Schema, Variant as _},
    sql::parse,
};
use rusqlite::{
    functions::{Aggregate, Context, FunctionFlags},
    types::{Value as SV, ValueRef},
    Connection,
};
use serde_json::{json, Value as J};
use std::sync::{
    atomic::{AtomicU64, Ordering},
    Arc,
};

// ---------------------------------------------------------------- md5 (for the MD5 UDF)
pub fn md5_hex(input: &[u8]) -> String {
    let s: [u32; 64] = [
        7, 12, 17, 22, 7, 12, 17, 22, 7, 12, 17, 22, 7, 12, 17, 22, 5, 9, 14, 20, 5, 9, 14, 20, 5, 9, 14, 20, 5, 9, 14,
        20, 4, 11, 16, 23, 4, 11, 16, 23, 4, 11, 16, 23, 4, 11, 16, 23, 6, 10, 15, 21, 6, 10, 15, 21, 6, 10, 15, 21, 6,
        10, 15, 21,
    ];
    let k: Vec<u32> = (0..64).map(|i| ((i as f64 + 1.0).sin().abs() * 4294967296.0) as u32).collect();
    let (mut a0, mut b0, mut c0, mut d0) = (0x67452301u32, 0xefcdab89u32, 0x98badcfeu32, 0x10325476u32);
    let mut msg = input.to_vec();
    let bit_len = (input.len() as u64).wrapping_mul(8);
    msg.push(0x80);
    while msg.len() % 64 != 56 {
        msg.push(0);
    }
    msg.extend_from_slice(&bit_len.to_le_bytes());
    for chunk in msg.chunks(64) {
        let m: Vec<u32> = (0..16).map(|i| u32::from_le_bytes([chunk[4 * i], chunk[4 * i + 1], chunk[4 * i + 2], chunk[4 * i + 3]])).collect();
        let (mut a, mut b, mut c, mut d) = (a0, b0, c0, d0);
        for i in 0..64 {
            let (mut f, g);
            if i < 16 {
                f = (b & c) | (!b & d);
                g = i;
            } else if i < 32 {
                f = (d & b) | (!d & c);
                g = (5 * i + 1) % 16;
            } else if i < 48 {
                f = b ^ c ^ d;
                g = (3 * i + 5) % 16;
            } else {
                f = c ^ (b | !d);
                g = (7 * i) % 16;
            }
            f = f.wrapping_add(a).wrapping_add(k[i]).wrapping_add(m[g]);
            a = d;
            d = c;
            c = b;
            b = b.wrapping_add(f.rotate_left(s[i]));
        }
        a0 = a0.wrapping_add(a);
        b0 = b0.wrapping_add(b);
        c0 = c0.wrapping_add(c);
        d0 = d0.wrapping_add(d);
    }
    let mut out = String::new();
    for v in [a0, b0, c0, d0] {
        for b in v.to_le_bytes() {
            out.push_str(&format!("{:02x}", b));
        }
    }
    out
}

// ---------------------------------------------------------------- cells
#[derive(Clone, Debug, PartialEq)]
pub enum Cell {
    Null,
    Int(i64),
    Real(f64),
    Text(String),
    Blob(Vec<u8>),
}

impl Cell {
    pub fn to_json(&self) -> J {
        match self {
            Cell::Null => J::Null,
            Cell::Int(i) => json!(i),
            Cell::Real(f) => {
                if f.is_finite() {
                    json!({ "r": f })
                } else {
                    json!({"r": f.to_string()})
                }
            }
            Cell::Text(s) => json!(s),
            Cell::Blob(b) => json!({"b": b.iter().map(|x| format!("{:02x}", x)).collect::<String>()}),
        }
    }
    pub fn from_json(j: &J) -> Cell {
        match j {
            J::Null => Cell::Null,
            J::Bool(b) => Cell::Int(*b as i64),
            J::Number(n) if n.is_i64() => Cell::Int(n.as_i64().unwrap()),
            J::Number(n) => Cell::Real(n.as_f64().unwrap()),
            J::String(s) => Cell::Text(s.clone()),
            J::Object(o) if o.contains_key("r") => Cell::Real(crate::dt::json_f64(&o["r"])),
            _ => panic!("bad cell {j}"),
        }
    }
    fn to_sql(&self) -> SV {
        match self {
            Cell::Null => SV::Null,
            Cell::Int(i) => SV::Integer(*i),
            Cell::Real(f) => SV::Real(*f),
            Cell::Text(s) => SV::Text(s.clone()),
            Cell::Blob(b) => SV::Blob(b.clone()),
        }
    }
    fn from_ref(v: ValueRef<'_>) -> Cell {
        match v {
            ValueRef::Null => Cell::Null,
            ValueRef::Integer(i) => Cell::Int(i),
            ValueRef::Real(f) => Cell::Real(f),
            ValueRef::Text(s) => Cell::Text(String::from_utf8_lossy(s).to_string()),
            ValueRef::Blob(b) => Cell::Blob(b.to_vec()),
        }
    }
}

fn as_f64(v: &SV) -> Option<f64> {
    match v {
        SV::Integer(i) => Some(*i as f64),
        SV::Real(f) => Some(*f),
        _ => None,
    }
}

// ---------------------------------------------------------------- UDFs
struct FirstLast(bool);
impl Aggregate<Option<SV>, SV> for FirstLast {
    fn init(&self, _: &mut Context<'_>) -> rusqlite::Result<Option<SV>> {
        Ok(None)
    }
    fn step(&self, ctx: &mut Context<'_>, acc: &mut Option<SV>) -> rusqlite::Result<()> {
        let v: SV = ctx.get(0)?;
        if self.0 {
            if acc.is_none() {
                *acc = Some(v);
            }
        } else {
            *acc = Some(v);
        }
        Ok(())
    }
    fn finalize(&self, _: &mut Context<'_>, acc: Option<Option<SV>>) -> rusqlite::Result<SV> {
        Ok(acc.flatten().unwrap_or(SV::Null))
    }
}

/// sample variance / standard deviation (PostgreSQL VARIANCE / STDDEV), population with `pop`
struct Moments {
    std: bool,
    pop: bool,
}
impl Aggregate<(f64, f64, f64), SV> for Moments {
    fn init(&self, _: &mut Context<'_>) -> rusqlite::Result<(f64, f64, f64)> {
        Ok((0.0, 0.0, 0.0))
    }
    fn step(&self, ctx: &mut Context<'_>, acc: &mut (f64, f64, f64)) -> rusqlite::Result<()> {
        let v: SV = ctx.get(0)?;
        if let Some(x) = as_f64(&v) {
            // Welford
            acc.0 += 1.0;
            let d = x - acc.1;
            acc.1 += d / acc.0;
            acc.2 += d * (x - acc.1);
        }
        Ok(())
    }
    fn finalize(&self, _: &mut Context<'_>, acc: Option<(f64, f64, f64)>) -> rusqlite::Result<SV> {
        let (n, _, m2) = acc.unwrap_or((0.0, 0.0, 0.0));
        let den = if self.pop { n } else { n - 1.0 };
        if den <= 0.0 {
            return Ok(SV::Null);
        }
        let var = m2 / den;
        Ok(SV::Real(if self.std { var.sqrt() } else { var }))
    }
}

fn cmp_sv(a: &SV, b: &SV) -> std::cmp::Ordering {
    match (as_f64(a), as_f64(b)) {
        (Some(x), Some(y)) => x.partial_cmp(&y).unwrap_or(std::cmp::Ordering::Equal),
        _ => match (a, b) {
            (SV::Text(x), SV::Text(y)) => x.cmp(y),
            _ => std::cmp::Ordering::Equal,
        },
    }
}

/// How the `random()` / `vrandom(id)` functions answer
#[derive(Clone)]
pub enum RandomMode {
    /// a constant in (0,1]: 1.0 makes every Box-Muller term vanish
    Const(f64),
    /// a deterministic stream
    Stream(u64),
    /// `vrandom(0)` (the draw that orders the groups of a privacy unit before capping) follows a
    /// deterministic stream; every other draw (noise) is the constant
    Split(f64, u64),
}

pub fn open(random: RandomMode) -> Connection {
    let conn = Connection::open_in_memory().expect("sqlite");
    let det = FunctionFlags::SQLITE_UTF8 | FunctionFlags::SQLITE_DETERMINISTIC;
    let nondet = FunctionFlags::SQLITE_UTF8;
    conn.create_aggregate_function("first", 1, det, FirstLast(true)).unwrap();
    conn.create_aggregate_function("last", 1, det, FirstLast(false)).unwrap();
    conn.create_aggregate_function("stddev", 1, det, Moments { std: true, pop: false }).unwrap();
    conn.create_aggregate_function("variance", 1, det, Moments { std: false, pop: false }).unwrap();
    conn.create_aggregate_function("stddev_samp", 1, det, Moments { std: true, pop: false }).unwrap();
    conn.create_aggregate_function("var_samp", 1, det, Moments { std: false, pop: false }).unwrap();
    conn.create_aggregate_function("stddev_pop", 1, det, Moments { std: true, pop: true }).unwrap();
    conn.create_aggregate_function("var_pop", 1, det, Moments { std: false, pop: true }).unwrap();
    conn.create_scalar_function("md5", 1, det, |ctx| {
        let v: SV = ctx.get(0)?;
        Ok(match v {
            SV::Null => SV::Null,
            SV::Text(s) => SV::Text(md5_hex(s.as_bytes())),
            SV::Integer(i) => SV::Text(md5_hex(i.to_string().as_bytes())),
            SV::Real(f) => SV::Text(md5_hex(f.to_string().as_bytes())),
            SV::Blob(b) => SV::Text(md5_hex(&b)),
        })
    })
    .unwrap();
    for (name, least) in [("least", true), ("greatest", false)] {
        conn.create_scalar_function(name, -1, det, move |ctx| {
            let mut best: Option<SV> = None;
            for i in 0..ctx.len() {
                let v: SV = ctx.get(i)?;
                if matches!(v, SV::Null) {
                    continue;
                }
                best = Some(match best {
                    None => v,
                    Some(b) => {
                        let o = cmp_sv(&v, &b);
                        if (least && o == std::cmp::Ordering::Less) || (!least && o == std::cmp::Ordering::Greater) {
                            v
                        } else {
                            b
                        }
                    }
                });
            }
            Ok(best.unwrap_or(SV::Null))
        })
        .unwrap();
    }
    let seed0 = match &random {
        RandomMode::Stream(s) | RandomMode::Split(_, s) => *s,
        _ => 0,
    };
    let state = Arc::new(AtomicU64::new(seed0));
    // every statement sees the stream from its start (see `exec`), so that a relation and its
    // sub-relations executed separately take the same random decisions
    STREAM.with(|st| *st.borrow_mut() = Some((state.clone(), seed0)));
    let mode = random.clone();
    let st = state.clone();
    // `cap`: is this the draw of the contribution-capping column?
    let draw = move |cap: bool| -> f64 {
        let stream = || {
            let mut r = Rng(st.fetch_add(0x9E37, Ordering::SeqCst));
            // (0,1]
            ((r.next() >> 11) as f64 + 1.0) / (1u64 << 53) as f64
        };
        match &mode {
            RandomMode::Const(c) => *c,
            RandomMode::Stream(_) => stream(),
            RandomMode::Split(c, _) => {
                if cap {
                    stream()
                } else {
                    *c
                }
            }
        }
    };
    let d1 = draw.clone();
    conn.create_scalar_function("random", 0, nondet, move |_| Ok(d1(false))).unwrap();
    let d2 = draw.clone();
    conn.create_scalar_function("vrandom", 1, nondet, move |ctx| {
        let id: i64 = ctx.get(0)?;
        Ok(d2(id == 0))
    })
    .unwrap();
    conn
}

pub type Rows = (Vec<String>, Vec<Vec<Cell>>);

thread_local! {
    static STREAM: std::cell::RefCell<Option<(Arc<AtomicU64>, u64)>> = std::cell::RefCell::new(None);
}

/// SQLite spells an OFFSET without LIMIT `LIMIT -1 OFFSET n`: the standard spelling `OFFSET n` is rewritten for execution
/// (the relational engine only; what a stock SQLite accepts from the SQLite translator is C17's business).
pub fn limitless_offset(sql: &str) -> String {
    let toks: Vec<&str> = sql.split(' ').collect();
    let mut out: Vec<String> = Vec::with_capacity(toks.len() + 2);
    for (i, t) in toks.iter().enumerate() {
        if t.eq_ignore_ascii_case("OFFSET") && i + 1 < toks.len() && toks[i + 1].trim_end_matches(|c: char| !c.is_ascii_digit()).parse::<u64>().is_ok() {
            let limited = i >= 2 && toks[i - 2].eq_ignore_ascii_case("LIMIT");
            if !limited {
                out.push("LIMIT".into());
                out.push("-1".into());
            }
        }
        out.push(t.to_string());
    }
    out.join(" ")
}

pub fn exec(conn: &Connection, sql: &str) -> Result<Rows, String> {
    STREAM.with(|st| {
        if let Some((state, seed0)) = st.borrow().as_ref() {
            state.store(*seed0, Ordering::SeqCst);
        }
    });
    let mut st = conn.prepare(sql).map_err(|e| e.to_string())?;
    let names: Vec<String> = st.column_names().iter().map(|s| s.to_string()).collect();
    let n = names.len();
    let mut rows = vec![];
    let mut q = st.query([]).map_err(|e| e.to_string())?;
    loop {
        match q.next() {
            Ok(Some(row)) => rows.push((0..n).map(|i| Cell::from_ref(row.get_ref(i).unwrap())).collect()),
            Ok(None) => break,
            Err(e) => return Err(e.to_string()),
        }
    }
    Ok((names, rows))
}

pub fn rows_json(r: &Rows) -> J {
    json!({"cols": r.0, "rows": r.1.iter().map(|row| J::Array(row.iter().map(|c| c.to_json()).collect())).collect::<Vec<_>>()})
}

// ---------------------------------------------------------------- tables
/// {"name":"t","cols":[{"n":"a","t":<dt>,"c":"unique"|"pk"|null}],"size":3,"rows":[[..]]}
pub fn table_relation(t: &J) -> Relation {
    let name = t["name"].as_str().unwrap();
    let fields: Vec<Field> = t["cols"]
        .as_array()
        .unwrap()
        .iter()
        .map(|c| {
            Field::new(
                c["n"].as_str().unwrap().to_string(),
                json_dt(&c["t"]),
                match c["c"].as_str() {
                    Some("unique") => Some(Constraint::Unique),
                    Some("pk") => Some(Constraint::PrimaryKey),
                    Some("fk") => Some(Constraint::ForeignKey),
                    _ => None,
                },
            )
        })
        .collect();
    if let Some(path) = t["path"].as_array() {
        // a table that lives under a multi-part path (schema.table)
        let path: Vec<String> = path.iter().map(|p| p.as_str().unwrap().to_string()).collect();
        let size = qrlew::data_type::Integer::from_value(t["size"].as_i64().unwrap_or(1));
        return Relation::Table(qrlew::relation::Table::new(name.to_string(), path.into(), Schema::new(fields), size));
    }
    if let Some(ivs) = t["size_ivs"].as_array() {
        // a size interval cannot be given through the builder
        let size = ivs.iter().fold(qrlew::data_type::Integer::empty(), |acc, p| {
            acc.union_interval(p[0].as_i64().unwrap(), p[1].as_i64().unwrap())
        });
        return Relation::Table(qrlew::relation::Table::new(name.to_string(), name.into(), Schema::new(fields), size));
    }
    let b = Relation::table().name(name).schema(Schema::new(fields));
    let b = match t["size"].as_i64() {
        Some(s) => b.size(s),
        None => b,
    };
    b.build()
}

fn affinity(t: &J) -> &'static str {
    match t["k"].as_str().unwrap() {
        "int" | "bool" => "INTEGER",
        "float" => "REAL",
        "text" => "TEXT",
        "opt" => affinity(&t["t"]),
        _ => "",
    }
}

pub fn create_table(conn: &Connection, t: &J) -> Result<(), String> {
    let name = t["name"].as_str().unwrap();
    let cols: Vec<String> = t["cols"]
        .as_array()
        .unwrap()
        .iter()
        .map(|c| format!("\"{}\" {}", c["n"].as_str().unwrap().replace('"', "\"\""), affinity(&c["t"])))
        .collect();
    // a table under a two-part path lives in an attached database of that name
    let qualified = match t["path"].as_array() {
        Some(path) if path.len() == 2 => {
            let (schema, table) = (path[0].as_str().unwrap(), path[1].as_str().unwrap());
            let _ = conn.execute(&format!("ATTACH DATABASE ':memory:' AS \"{}\"", schema), []);
            format!("\"{}\".\"{}\"", schema, table)
        }
        _ => format!("\"{}\"", name.replace('"', "\"\"")),
    };
    conn.execute(&format!("CREATE TABLE {} ({})", qualified, cols.join(", ")), [])
        .map_err(|e| e.to_string())?;
    let ph: Vec<&str> = cols.iter().map(|_| "?").collect();
    let mut st = conn
        .prepare(&format!("INSERT INTO {} VALUES ({})", qualified, ph.join(",")))
        .map_err(|e| e.to_string())?;
    if let Some(rows) = t["rows"].as_array() {
        for r in rows {
            let vals: Vec<SV> = r.as_array().unwrap().iter().map(|c| Cell::from_json(c).to_sql()).collect();
            st.execute(rusqlite::params_from_iter(vals.iter())).map_err(|e| e.to_string())?;
        }
    }
    Ok(())
}

pub fn relations_of(tables: &J) -> Hierarchy<std::sync::Arc<Relation>> {
    tables
        .as_array()
        .unwrap()
        .iter()
        .map(|t| {
            let r = table_relation(t);
            let key = match t["path"].as_array() {
                Some(path) => path.iter().map(|p| p.as_str().unwrap().to_string()).collect(),
                None => vec![r.name().to_string()],
            };
            (key, std::sync::Arc::new(r))
        })
        .collect()
}

pub fn database_of(tables: &J, random: RandomMode) -> Result<Connection, String> {
    let conn = open(random);
    for t in tables.as_array().unwrap() {
        create_table(&conn, t)?;
    }
    Ok(conn)
}

/// A database without any of the harness's functions: what a stock SQLite accepts (C17).
pub fn plain_database_of(tables: &J) -> Result<Connection, String> {
    let conn = Connection::open_in_memory().map_err(|e| e.to_string())?;
    for t in tables.as_array().unwrap() {
        create_table(&conn, t)?;
    }
    Ok(conn)
}

// ---------------------------------------------------------------- relation description
pub fn kind_of(r: &Relation) -> &'static str {
    match r {
        Relation::Table(_) => "Table",
        Relation::Map(_) => "Map",
        Relation::Reduce(_) => "Reduce",
        Relation::Join(_) => "Join",
        Relation::Set(_) => "Set",
        Relation::Values(_) => "Values",
    }
}

pub fn schema_json(r: &Relation) -> J {
    J::Array(
        r.schema()
            .iter()
            .map(|f| {
                json!({"n": f.name(), "t": dt_json(&f.data_type()), "c": match f.constraint() {
                    Some(Constraint::Unique) => json!("unique"),
                    Some(Constraint::PrimaryKey) => json!("pk"),
                    Some(Constraint::ForeignKey) => json!("fk"),
                    None => J::Null,
                }})
            })
            .collect(),
    )
}

/// A short local signature of a node, used to key findings (no generated names in it)
pub fn node_signature(r: &Relation) -> String {
    match r {
        Relation::Table(_) => "Table".into(),
        Relation::Map(m) => format!(
            "Map(filter={},order={},limit={},offset={})",
            m.filter().is_some(),
            !m.order_by().is_empty(),
            m.limit().is_some(),
            m.offset().is_some()
        ),
        Relation::Reduce(x) => format!("Reduce(groups={})", x.group_by().len()),
        Relation::Join(j) => format!(
            "Join({}{})",
            j.operator(),
            if join_on_unique_key(j) { ",unique_key" } else { "" }
        ),
        Relation::Set(s) => format!("Set({} {})", s.operator(), s.quantifier()),
        Relation::Values(_) => "Values".into(),
    }
}

/// Per output column of a node, the root of the expression that computes it (function / aggregate name, "col", "value"):
/// used to tell apart the findings about declared types of different expressions at nodes of the same shape.
pub fn column_roots(r: &Relation) -> Vec<String> {
    use qrlew::expr::Expr;
    fn root(e: &Expr) -> String {
        match e {
            Expr::Column(_) => "col".into(),
            Expr::Value(_) => "value".into(),
            Expr::Function(f) => format!("{}", f.function()),
            Expr::Aggregate(a) => format!("{}", a.aggregate()),
            Expr::Struct(_) => "struct".into(),
        }
    }
    match r {
        Relation::Map(m) => m.projection().iter().map(root).collect(),
        Relation::Reduce(x) => x.aggregate().iter().map(|a| format!("{}", a.aggregate())).collect(),
        _ => r.schema().iter().map(|_| kind_of(r).to_string()).collect(),
    }
}

/// Does the ON condition equate a column that carries a unique / primary key constraint?
fn join_on_unique_key(j: &qrlew::relation::Join) -> bool {
    use qrlew::expr::Expr;
    use qrlew::relation::JoinOperator;
    fn cols(e: &Expr, out: &mut Vec<qrlew::expr::Identifier>) {
        match e {
            Expr::Column(c) => out.push(c.clone()),
            Expr::Function(f) => {
                for a in f.arguments() {
                    cols(&a, out)
                }
            }
            _ => (),
        }
    }
    let e = match j.operator() {
        JoinOperator::Inner(e) | JoinOperator::LeftOuter(e) | JoinOperator::RightOuter(e) | JoinOperator::FullOuter(e) => e,
        JoinOperator::Cross => return false,
    };
    let mut cs = vec![];
    cols(e, &mut cs);
    cs.iter().any(|c| {
        let side = if c.head().map(|h| h == "_LEFT_").unwrap_or(false) {
            j.left()
        } else {
            j.right()
        };
        c.last()
            .ok()
            .and_then(|n| side.schema().field(n).ok())
            .map(|f| f.has_unique_or_primary_key_constraint())
            .unwrap_or(false)
    })
}

pub fn size_json(r: &Relation) -> J {
    J::Array(r.size().iter().map(|[lo, hi]| json!([lo, hi])).collect())
}

/// All distinct nodes of a relation, inputs first
pub fn nodes(r: &Relation) -> Vec<&Relation> {
    let mut out: Vec<&Relation> = vec![];
    fn go<'a>(r: &'a Relation, out: &mut Vec<&'a Relation>) {
        for i in r.inputs() {
            go(i, out);
        }
        if !out.iter().any(|o| *o == r) {
            out.push(r);
        }
    }
    go(r, &mut out);
    out
}

pub fn render(r: &Relation) -> String {
    ast::Query::from(r).to_string()
}

/// The translator used to *execute* rewritten relations on SQLite: the library's PostgreSQL translator,
/// except that `Random(id)` is rendered `vrandom(id)` so that the harness controls each random source.
#[derive(Clone, Copy)]
pub struct ExecTranslator;
use qrlew::dialect_translation::{postgresql::PostgreSqlTranslator, RelationToQueryTranslator, RelationWithTranslator};
impl RelationToQueryTranslator for ExecTranslator {
    fn first(&self, expr: ast::Expr) -> ast::Expr {
        PostgreSqlTranslator.first(expr)
    }
    fn mean(&self, expr: ast::Expr) -> ast::Expr {
        PostgreSqlTranslator.mean(expr)
    }
    fn var(&self, expr: ast::Expr) -> ast::Expr {
        PostgreSqlTranslator.var(expr)
    }
    fn std(&self, expr: ast::Expr) -> ast::Expr {
        PostgreSqlTranslator.std(expr)
    }
    fn trunc(&self, exprs: Vec<ast::Expr>) -> ast::Expr {
        PostgreSqlTranslator.trunc(exprs)
    }
    fn round(&self, exprs: Vec<ast::Expr>) -> ast::Expr {
        PostgreSqlTranslator.round(exprs)
    }
    fn function(&self, function: &qrlew::expr::function::Function, arguments: Vec<ast::Expr>) -> ast::Expr {
        match function {
            qrlew::expr::function::Function::Random(id) => {
                let q = parse(&format!("SELECT vrandom({})", id)).unwrap();
                match q.body.as_ref() {
                    ast::SetExpr::Select(s) => match &s.projection[0] {
                        ast::SelectItem::UnnamedExpr(e) => e.clone(),
                        _ => unreachable!(),
                    },
                    _ => unreachable!(),
                }
            }
            f => PostgreSqlTranslator.function(f, arguments),
        }
    }
}

/// Rendering for execution on SQLite (see `ExecTranslator`); SQLite rejects a column list on the alias of
/// a derived VALUES table, which is rewritten into an equivalent projection.
pub fn render_exec(r: &Relation) -> String {
    let sql = ast::Query::from(RelationWithTranslator(r, ExecTranslator)).to_string();
    fix_values_alias(&sql)
}

fn fix_values_alias(sql: &str) -> String {
    // (VALUES (1), (2)) AS "x" ("x")   ->   (SELECT column1 AS "x" FROM (VALUES (1), (2))) AS "x"
    let mut out = String::new();
    let mut rest = sql;
    while let Some(i) = rest.find("(VALUES ") {
        out.push_str(&rest[..i]);
        let after = &rest[i..];
        // find the matching close parenthesis
        let mut depth = 0i32;
        let mut end = None;
        let mut in_str = false;
        for (k, ch) in after.char_indices() {
            match ch {
                '\'' => in_str = !in_str,
                '(' if !in_str => depth += 1,
                ')' if !in_str => {
                    depth -= 1;
                    if depth == 0 {
                        end = Some(k);
                        break;
                    }
                }
                _ => (),
            }
        }
        let Some(end) = end else {
            out.push_str(after);
            rest = "";
            break;
        };
        let values = &after[1..end]; // VALUES (...), (...)
        let tail = &after[end + 1..];
        // expect: AS "name" ("col")
        let parsed = (|| {
            let t = tail.strip_prefix(" AS \"")?;
            let q = t.find('"')?;
            let name = &t[..q];
            let t2 = t[q + 1..].strip_prefix(" (\"")?;
            let q2 = t2.find('"')?;
            let col = &t2[..q2];
            let t3 = t2[q2 + 1..].strip_prefix(")")?;
            Some((name.to_string(), col.to_string(), t3))
        })();
        match parsed {
            Some((name, col, t3)) => {
                out.push_str(&format!("(SELECT column1 AS \"{}\" FROM ({})) AS \"{}\"", col, values, name));
                rest = t3;
            }
            None => {
                out.push_str(&after[..end + 1]);
                rest = tail;
            }
        }
    }
    out.push_str(rest);
    out
}

// ---------------------------------------------------------------- the sql-run engine
/// One case: {"id", "tables":[..], "sql": "...", "nodes": bool}
/// Observation: stage outcomes, per-node declared schema/size and executed rows, original and
/// rendered results.
pub fn run_case(case: &J) -> J {
    let mut obs = json!({"id": case["id"], "sql": case["sql"]});
    let sql = case["sql"].as_str().unwrap();
    let tables = &case["tables"];
    let relations = relations_of(tables);
    let mut stages = serde_json::Map::new();
    // parse
    let query = match guarded(|| parse(sql)) {
        Ok(Ok(q)) => {
            stages.insert("parse".into(), json!("ok"));
            q
        }
        Ok(Err(e)) => {
            stages.insert("parse".into(), json!(format!("err:{e}")));
            obs["stages"] = J::Object(stages);
            return obs;
        }
        Err(p) => {
            stages.insert("parse".into(), json!(format!("panic:{p}")));
            obs["stages"] = J::Object(stages);
            return obs;
        }
    };
    // build
    let relation = match guarded(|| Relation::try_from(query.with(&relations))) {
        Ok(Ok(r)) => {
            stages.insert("build".into(), json!("ok"));
            r
        }
        Ok(Err(e)) => {
            stages.insert("build".into(), json!(format!("err:{e}")));
            obs["stages"] = J::Object(stages);
            return obs;
        }
        Err(p) => {
            stages.insert("build".into(), json!(format!("panic:{p}")));
            obs["stages"] = J::Object(stages);
            return obs;
        }
    };
    // render
    let rendered = match guarded(|| render(&relation)) {
        Ok(s) => {
            stages.insert("render".into(), json!("ok"));
            s
        }
        Err(p) => {
            stages.insert("render".into(), json!(format!("panic:{p}")));
            obs["stages"] = J::Object(stages);
            return obs;
        }
    };
    obs["rendered"] = json!(rendered);
    let conn = match database_of(tables, RandomMode::Const(1.0)) {
        Ok(c) => c,
        Err(e) => {
            stages.insert("db".into(), json!(format!("err:{e}")));
            obs["stages"] = J::Object(stages);
            return obs;
        }
    };
    match exec(&conn, &limitless_offset(sql)) {
        Ok(r) => {
            stages.insert("exec_orig".into(), json!("ok"));
            obs["orig"] = rows_json(&r);
        }
        Err(e) => {
            stages.insert("exec_orig".into(), json!(format!("err:{e}")));
        }
    }
    match exec(&conn, &limitless_offset(&rendered)) {
        Ok(r) => {
            stages.insert("exec_rend".into(), json!("ok"));
            obs["rend"] = rows_json(&r);
        }
        Err(e) => {
            stages.insert("exec_rend".into(), json!(format!("err:{e}")));
        }
    }
    // re-parse the rendering and render again (fixpoint / schema stability, C16)
    match guarded(|| parse(&rendered).map(|q| Relation::try_from(q.with(&relations)))) {
        Ok(Ok(Ok(r2))) => {
            stages.insert("reparse".into(), json!("ok"));
            obs["reparse_schema"] = schema_json(&r2);
            let again = render(&r2);
            if let Ok(rr) = exec(&conn, &limitless_offset(&again)) {
                obs["rend2"] = rows_json(&rr);
            }
        }
        Ok(Ok(Err(e))) => {
            stages.insert("reparse".into(), json!(format!("err:{e}")));
        }
        Ok(Err(e)) => {
            stages.insert("reparse".into(), json!(format!("err:{e}")));
        }
        Err(p) => {
            stages.insert("reparse".into(), json!(format!("panic:{p}")));
        }
    }
    // every node: declared schema / size and what it really produces
    let mut ns = vec![];
    for n in nodes(&relation) {
        let mut nj = json!({"name": n.name(), "kind": kind_of(n), "sig": node_signature(n), "roots": guarded(|| column_roots(n)).unwrap_or_default(), "schema": schema_json(n), "size": size_json(n),
                            "root": n == &relation});
        match guarded(|| render(n)) {
            Ok(q) => match exec(&conn, &limitless_offset(&q)) {
                Ok(r) => {
                    nj["rows"] = rows_json(&r)["rows"].clone();
                    nj["cols"] = json!(r.0);
                }
                Err(e) => {
                    nj["exec_err"] = json!(e);
                }
            },
            Err(p) => {
                nj["exec_err"] = json!(format!("panic:{p}"));
            }
        }
        ns.push(nj);
    }
    obs["nodes"] = J::Array(ns);
    obs["stages"] = J::Object(stages);
    obs
}

pub fn run(_args: &[String]) -> i32 {
    let cases = read_cases();
    let mut out = Out::new();
    for c in &cases {
        let o = match guarded(|| run_case(c)) {
            Ok(o) => o,
            Err(p) => json!({"id": c["id"], "sql": c["sql"], "stages": {"harness": format!("panic:{p}")}}),
        };
        out.put(&o);
    }
    out.flush();
    0
}
