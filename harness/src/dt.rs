//! DataType / Value <-> JSON: the projection of real types to a neutral description (used by every
//! engine; the rank encoding for TLC is applied afterwards on these descriptions) and the
//! concretisation of abstract types chosen by TLC.
use chrono::{Duration, NaiveDate, NaiveDateTime, NaiveTime};
use qrlew::data_type::{self, intervals::Intervals, value::Value, DataType};
use serde_json::{json, Value as J};

fn f64_json(x: f64) -> J {
    if x.is_finite() {
        json!(x)
    } else if x.is_nan() {
        json!("nan")
    } else if x > 0.0 {
        json!("inf")
    } else {
        json!("-inf")
    }
}

pub fn json_f64(j: &J) -> f64 {
    match j {
        J::String(s) if s == "nan" => f64::NAN,
        J::String(s) if s == "inf" => f64::INFINITY,
        J::String(s) if s == "-inf" => f64::NEG_INFINITY,
        j => j.as_f64().unwrap(),
    }
}

fn ivs<B: data_type::intervals::Bound, F: Fn(&B) -> J>(i: &Intervals<B>, f: F) -> J {
    J::Array(i.iter().map(|[lo, hi]| json!([f(lo), f(hi)])).collect())
}

/// Structural description of a real DataType
pub fn dt_json(t: &DataType) -> J {
    match t {
        DataType::Null => json!({"k": "null"}),
        DataType::Unit(_) => json!({"k": "unit"}),
        DataType::Boolean(b) => json!({"k": "bool", "ivs": ivs(b, |x| json!(*x))}),
        DataType::Integer(i) => json!({"k": "int", "ivs": ivs(i, |x| json!(*x))}),
        DataType::Enum(e) => json!({"k": "enum", "vals": e.values().into_iter().map(|(s, i)| json!([s, i])).collect::<Vec<_>>()}),
        DataType::Float(f) => json!({"k": "float", "ivs": ivs(f, |x| f64_json(*x))}),
        DataType::Text(s) => json!({"k": "text", "ivs": ivs(s, |x| json!(x))}),
        DataType::Bytes(_) => json!({"k": "bytes"}),
        DataType::Struct(s) => json!({"k": "struct", "fields": s.fields().iter().map(|(n, t)| json!([n, dt_json(t)])).collect::<Vec<_>>()}),
        DataType::Union(s) => json!({"k": "union", "fields": s.fields().iter().map(|(n, t)| json!([n, dt_json(t)])).collect::<Vec<_>>()}),
        DataType::Optional(o) => json!({"k": "opt", "t": dt_json(o.data_type())}),
        DataType::List(l) => json!({"k": "list", "t": dt_json(l.data_type()), "size": ivs(l.size(), |x| json!(*x))}),
        DataType::Set(l) => json!({"k": "set", "t": dt_json(l.data_type()), "size": ivs(l.size(), |x| json!(*x))}),
        DataType::Array(a) => json!({"k": "array", "t": dt_json(a.data_type()), "shape": a.shape()}),
        DataType::Date(d) => json!({"k": "date", "ivs": ivs(d, |x| json!(x.to_string()))}),
        DataType::Time(d) => json!({"k": "time", "ivs": ivs(d, |x| json!(x.to_string()))}),
        DataType::DateTime(d) => json!({"k": "datetime", "ivs": ivs(d, |x| json!(x.to_string()))}),
        DataType::Duration(d) => json!({"k": "duration", "ivs": ivs(d, |x| json!(x.num_nanoseconds().map(|n| n.to_string()).unwrap_or(x.num_seconds().to_string() + "s")))}),
        DataType::Id(i) => json!({"k": "id", "unique": i.unique()}),
        DataType::Function(f) => json!({"k": "function", "dom": dt_json(f.domain()), "cod": dt_json(f.co_domain())}),
        DataType::Any => json!({"k": "any"}),
    }
}

/// Structural description of a real Value
pub fn value_json(v: &Value) -> J {
    match v {
        Value::Unit(_) => json!({"k": "unit"}),
        Value::Boolean(b) => json!({"k": "bool", "v": **b}),
        Value::Integer(i) => json!({"k": "int", "v": **i}),
        Value::Enum(e) => json!({"k": "enum", "v": format!("{}", e)}),
        Value::Float(f) => json!({"k": "float", "v": f64_json(**f)}),
        Value::Text(t) => json!({"k": "text", "v": **t}),
        Value::Bytes(b) => json!({"k": "bytes", "v": format!("{:?}", **b)}),
        Value::Struct(s) => json!({"k": "struct", "fields": s.iter().map(|(n, v)| json!([n, value_json(v)])).collect::<Vec<_>>()}),
        Value::Union(u) => json!({"k": "union", "field": u.0.clone(), "v": value_json(&u.1)}),
        Value::Optional(o) => match o.as_ref() {
            Some(v) => json!({"k": "some", "v": value_json(v)}),
            None => json!({"k": "none"}),
        },
        Value::List(l) => json!({"k": "list", "vs": l.iter().map(value_json).collect::<Vec<_>>()}),
        Value::Set(l) => json!({"k": "set", "vs": l.iter().map(value_json).collect::<Vec<_>>()}),
        Value::Array(a) => json!({"k": "array", "vs": a.0.iter().map(value_json).collect::<Vec<_>>(), "shape": a.1}),
        Value::Date(d) => json!({"k": "date", "v": d.to_string()}),
        Value::Time(d) => json!({"k": "time", "v": d.to_string()}),
        Value::DateTime(d) => json!({"k": "datetime", "v": d.to_string()}),
        Value::Duration(d) => json!({"k": "duration", "v": d.num_nanoseconds().map(|n| n.to_string()).unwrap_or(d.num_seconds().to_string() + "s")}),
        Value::Id(i) => json!({"k": "id", "v": **i}),
        Value::Function(_) => json!({"k": "function"}),
    }
}

pub fn parse_date(s: &str) -> NaiveDate {
    NaiveDate::parse_from_str(s, "%Y-%m-%d").unwrap()
}
pub fn parse_time(s: &str) -> NaiveTime {
    NaiveTime::parse_from_str(s, "%H:%M:%S%.f").unwrap()
}
pub fn parse_datetime(s: &str) -> NaiveDateTime {
    NaiveDateTime::parse_from_str(s, "%Y-%m-%d %H:%M:%S%.f").unwrap()
}

fn build_ivs<B: data_type::intervals::Bound, F: Fn(&J) -> B>(j: &J, f: F) -> Intervals<B> {
    j.as_array()
        .unwrap()
        .iter()
        .fold(Intervals::empty(), |acc, p| acc.union_interval(f(&p[0]), f(&p[1])))
}

/// Build a real DataType from a description (the inverse of `dt_json` on what it supports)
pub fn json_dt(j: &J) -> DataType {
    let k = j["k"].as_str().unwrap();
    match k {
        "null" => DataType::Null,
        "unit" => DataType::unit(),
        "any" => DataType::Any,
        "bytes" => DataType::bytes(),
        "bool" => DataType::Boolean(build_ivs(&j["ivs"], |x| x.as_bool().unwrap())),
        "int" => DataType::Integer(build_ivs(&j["ivs"], |x| x.as_i64().unwrap())),
        "float" => DataType::Float(build_ivs(&j["ivs"], json_f64)),
        "text" => DataType::Text(build_ivs(&j["ivs"], |x| x.as_str().unwrap().to_string())),
        "date" => DataType::Date(build_ivs(&j["ivs"], |x| parse_date(x.as_str().unwrap()))),
        "time" => DataType::Time(build_ivs(&j["ivs"], |x| parse_time(x.as_str().unwrap()))),
        "datetime" => DataType::DateTime(build_ivs(&j["ivs"], |x| parse_datetime(x.as_str().unwrap()))),
        "duration" => DataType::Duration(build_ivs(&j["ivs"], |x| Duration::nanoseconds(x.as_str().unwrap().parse().unwrap()))),
        "enum" => DataType::Enum(data_type::Enum::new(
            j["vals"].as_array().unwrap().iter().map(|p| (p[0].as_str().unwrap().to_string(), p[1].as_i64().unwrap())).collect(),
        )),
        "opt" => DataType::optional(json_dt(&j["t"])),
        "struct" => DataType::Struct(data_type::Struct::new(
            j["fields"].as_array().unwrap().iter().map(|p| (p[0].as_str().unwrap().to_string(), std::sync::Arc::new(json_dt(&p[1])))).collect(),
        )),
        "union" => DataType::Union(data_type::Union::new(
            j["fields"].as_array().unwrap().iter().map(|p| (p[0].as_str().unwrap().to_string(), std::sync::Arc::new(json_dt(&p[1])))).collect(),
        )),
        "list" => DataType::List(data_type::List::new(
            std::sync::Arc::new(json_dt(&j["t"])),
            build_ivs(&j["size"], |x| x.as_i64().unwrap()),
        )),
        "set" => DataType::Set(data_type::Set::new(
            std::sync::Arc::new(json_dt(&j["t"])),
            build_ivs(&j["size"], |x| x.as_i64().unwrap()),
        )),
        "id" => DataType::Id(data_type::Id::new(None, j["unique"].as_bool().unwrap_or(false), Default::default())),
        _ => panic!("json_dt: unsupported kind {k}"),
    }
}

/// Build a real Value from a description
pub fn json_value(j: &J) -> Value {
    let k = j["k"].as_str().unwrap();
    match k {
        "unit" => Value::unit(),
        "bool" => Value::boolean(j["v"].as_bool().unwrap()),
        "int" => Value::integer(j["v"].as_i64().unwrap()),
        "float" => Value::float(json_f64(&j["v"])),
        "text" => Value::text(j["v"].as_str().unwrap().to_string()),
        "date" => Value::date(parse_date(j["v"].as_str().unwrap())),
        "time" => Value::time(parse_time(j["v"].as_str().unwrap())),
        "datetime" => Value::date_time(parse_datetime(j["v"].as_str().unwrap())),
        "duration" => Value::duration(Duration::nanoseconds(j["v"].as_str().unwrap().parse().unwrap())),
        "some" => Value::some(json_value(&j["v"])),
        "none" => Value::none(),
        "struct" => Value::structured(j["fields"].as_array().unwrap().iter().map(|p| (p[0].as_str().unwrap().to_string(), json_value(&p[1]))).collect::<Vec<_>>()),
        "list" => Value::list(j["vs"].as_array().unwrap().iter().map(json_value).collect::<Vec<_>>()),
        "union" => Value::union(j["field"].as_str().unwrap().to_string(), json_value(&j["v"])),
        "id" => Value::id(j["v"].as_str().unwrap().to_string()),
        "bytes" => Value::bytes(vec![]),
        _ => panic!("json_value: unsupported kind {k}"),
    }
}
