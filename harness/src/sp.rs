//! Split.tla binding: every reachable state of the model (a GROUP BY list and a list of named SELECT items) is compiled
//! by the real `Split::and` exactly the way `sql/relation.rs` drives it; the resulting chain of Map / Reduce layers is
//! projected to the layers of SplitTerms.tla (terms as {k, n, a}) and judged by TLC (Trace_Split.tla).
use crate::dtx::{aggregate_by_name, function_by_name};
use crate::util::*;
use qrlew::expr::split::{Map, Reduce};
use qrlew::expr::{Expr, Split};
use qrlew::And;
use serde_json::{json, Value as J};
use std::sync::Arc;

fn conc(t: &J) -> Expr {
    let n = t["n"].as_str().unwrap();
    let args: Vec<Expr> = t["a"].as_array().map(|a| a.iter().map(conc).collect()).unwrap_or_default();
    match t["k"].as_str().unwrap() {
        "col" => Expr::col(n),
        "val" => Expr::val(n.parse::<i64>().expect("integer literal")),
        "fn" => Expr::Function(qrlew::expr::Function::new(function_by_name(&snake(n)).expect("function"), args.into_iter().map(Arc::new).collect())),
        "agg" => Expr::Aggregate(qrlew::expr::Aggregate::new(aggregate_by_name(&snake(n)).expect("aggregate"), Arc::new(args[0].clone()))),
        k => panic!("term kind {k}"),
    }
}

/// "CountDistinct" -> "count_distinct" (the spec uses the Debug names of the library's enums)
fn snake(s: &str) -> String {
    let mut o = String::new();
    for (i, c) in s.chars().enumerate() {
        if c.is_uppercase() && i > 0 {
            o.push('_');
        }
        o.extend(c.to_lowercase());
    }
    o
}

fn abs(e: &Expr) -> J {
    match e {
        Expr::Column(c) => json!({"k": "col", "n": c.iter().map(|s| s.to_string()).collect::<Vec<_>>().join("."), "a": []}),
        Expr::Value(v) => json!({"k": "val", "n": v.to_string(), "a": []}),
        Expr::Function(f) => json!({"k": "fn", "n": format!("{:?}", f.function()), "a": f.arguments().iter().map(abs).collect::<Vec<_>>()}),
        Expr::Aggregate(a) => json!({"k": "agg", "n": format!("{:?}", a.aggregate()), "a": [abs(a.argument())]}),
        Expr::Struct(_) => json!({"k": "struct", "n": "", "a": []}),
    }
}

fn map_layers(m: &Map, out: &mut Vec<J>) {
    out.push(json!({
        "kind": "map",
        "defs": m.named_exprs().iter().map(|(n, e)| json!({"n": n, "t": abs(e)})).collect::<Vec<_>>(),
        "groups": Vec::<String>::new(),
        "filter": m.filter().iter().map(abs).collect::<Vec<_>>(),
        "order": m.order_by().iter().map(|(e, _)| abs(e)).collect::<Vec<_>>(),
    }));
    if let Some(r) = m.reduce() {
        reduce_layers(r, out);
    }
}

fn reduce_layers(r: &Reduce, out: &mut Vec<J>) {
    out.push(json!({
        "kind": "reduce",
        "defs": r.named_aggregates().iter().map(|(n, a)| json!({"n": n, "t": {"k": "agg", "n": format!("{:?}", a.aggregate()), "a": [abs(&Expr::Column(a.column().clone()))]}})).collect::<Vec<_>>(),
        "groups": r.group_by().iter().map(|c| c.iter().map(|s| s.to_string()).collect::<Vec<_>>().join(".")).collect::<Vec<_>>(),
        "filter": Vec::<J>::new(),
        "order": Vec::<J>::new(),
    }));
    if let Some(m) = r.map() {
        map_layers(m, out);
    }
}

pub fn layers(s: &Split) -> Vec<J> {
    let mut out = vec![];
    match s {
        Split::Map(m) => map_layers(m, &mut out),
        Split::Reduce(r) => reduce_layers(r, &mut out),
    }
    out
}

/// the driver of `try_from_select_items_selection_and_group_by`
fn compile(groups: &[Expr], outs: &[(String, Expr)]) -> Split {
    if groups.is_empty() {
        Split::from_iter(outs.iter().cloned())
    } else {
        let g = groups.iter().cloned().fold(Split::Reduce(Reduce::default()), |s, e| s.and(Split::Reduce(Split::group_by(e))));
        outs.iter().cloned().fold(g, |s, ne| s.and(ne.into()))
    }
}

/// stdin: {"groups": [term], "outs": [{"n": name, "t": term}]} per line
pub fn replay(_args: &[String]) -> i32 {
    let cases = read_cases();
    let mut out = Out::new();
    for (ci, c) in cases.iter().enumerate() {
        let groups: Vec<Expr> = c["groups"].as_array().unwrap().iter().map(conc).collect();
        let outs: Vec<(String, Expr)> = c["outs"].as_array().unwrap().iter().map(|o| (o["n"].as_str().unwrap().to_string(), conc(&o["t"]))).collect();
        let r = guarded(|| layers(&compile(&groups, &outs)));
        out.put(&json!({
            "case": ci, "groups": c["groups"], "outs": c["outs"],
            "status": if r.is_ok() { "ok" } else { "panic" },
            "panic": r.as_ref().err().cloned().unwrap_or_default(),
            "chain": r.unwrap_or_default(),
        }));
    }
    out.flush();
    0
}

// ---------------------------------------------------------------------------------------------
// the same states through the real entry point: SQL text -> parser -> Split -> Map/Reduce builders -> Relation

fn sql_of(t: &J) -> String {
    let n = t["n"].as_str().unwrap();
    let a: Vec<String> = t["a"].as_array().map(|a| a.iter().map(sql_of).collect()).unwrap_or_default();
    match (t["k"].as_str().unwrap(), n) {
        ("col", _) | ("val", _) => n.to_string(),
        ("fn", "Opposite") => format!("(-({}))", a[0]),
        ("fn", "Abs") => format!("abs({})", a[0]),
        ("fn", "Plus") => format!("(({}) + ({}))", a[0], a[1]),
        ("fn", "Multiply") => format!("(({}) * ({}))", a[0], a[1]),
        ("fn", "Gt") => format!("(({}) > ({}))", a[0], a[1]),
        ("agg", g) => format!("{}({})", snake(g), a[0]),
        (k, n) => panic!("no SQL for {k} {n}"),
    }
}

fn relation_layers(r: &qrlew::Relation, out: &mut Vec<J>) {
    use qrlew::relation::Relation as R;
    match r {
        R::Map(m) => {
            out.push(json!({
                "kind": "map",
                "defs": m.named_exprs().iter().map(|(n, e)| json!({"n": n, "t": abs(e)})).collect::<Vec<_>>(),
                "groups": Vec::<String>::new(),
                "filter": m.filter().iter().map(abs).collect::<Vec<_>>(),
                "order": m.order_by().iter().map(|o| abs(&o.expr)).collect::<Vec<_>>(),
            }));
            relation_layers(m.input(), out);
        }
        R::Reduce(rd) => {
            out.push(json!({
                "kind": "reduce",
                "defs": rd.named_aggregates().iter().map(|(n, a)| json!({"n": n, "t": {"k": "agg", "n": format!("{:?}", a.aggregate()), "a": [abs(&Expr::Column(a.column().clone()))]}})).collect::<Vec<_>>(),
                "groups": rd.group_by().iter().map(|c| c.iter().map(|s| s.to_string()).collect::<Vec<_>>().join(".")).collect::<Vec<_>>(),
                "filter": Vec::<J>::new(),
                "order": Vec::<J>::new(),
            }));
            relation_layers(rd.input(), out);
        }
        R::Table(_) => {}
        other => out.push(json!({"kind": format!("other:{}", qrlew::relation::Variant::name(other)), "defs": [], "groups": [], "filter": [], "order": []})),
    }
}

/// stdin: {"groups": [term], "outs": [{"n", "t"}], "where": [term]} per line; table t(a, b) of small integers
pub fn sql(_args: &[String]) -> i32 {
    use qrlew::{builder::With, hierarchy::Hierarchy, relation::Relation, data_type::DataType, Ready};
    let cases = read_cases();
    let mut out = Out::new();
    let t: Relation = Relation::table().name("t")
        .schema(vec![("a", DataType::integer_interval(0, 10)), ("b", DataType::integer_interval(-5, 5))].into_iter().collect::<qrlew::relation::Schema>())
        .size(100).build();
    let rels: Hierarchy<Arc<Relation>> = Hierarchy::from([(vec!["t"], Arc::new(t))]);
    for (ci, c) in cases.iter().enumerate() {
        let sel: Vec<String> = c["outs"].as_array().unwrap().iter().map(|o| format!("{} AS {}", sql_of(&o["t"]), o["n"].as_str().unwrap())).collect();
        let grp: Vec<String> = c["groups"].as_array().unwrap().iter().map(sql_of).collect();
        let wh: Vec<String> = c["where"].as_array().map(|w| w.iter().map(sql_of).collect()).unwrap_or_default();
        let text = format!("SELECT {} FROM t{}{}", sel.join(", "),
            if wh.is_empty() { String::new() } else { format!(" WHERE {}", wh[0]) },
            if grp.is_empty() { String::new() } else { format!(" GROUP BY {}", grp.join(", ")) });
        let r = guarded(|| {
            let q = qrlew::sql::parse(&text).map_err(|e| format!("parse: {e}"))?;
            let rel = Relation::try_from(q.with(&rels)).map_err(|e| format!("{e}"))?;
            let mut ls = vec![];
            relation_layers(&rel, &mut ls);
            Ok::<Vec<J>, String>(ls)
        });
        let (status, msg, chain) = match r {
            Ok(Ok(ls)) => ("ok", String::new(), ls),
            Ok(Err(e)) => ("error", e.chars().take(200).collect(), vec![]),
            Err(p) => ("panic", p, vec![]),
        };
        out.put(&json!({"case": ci, "sql": text, "groups": c["groups"], "outs": c["outs"], "where": c.get("where").cloned().unwrap_or(json!([])),
                        "status": status, "panic": msg, "chain": chain}));
    }
    out.flush();
    0
}
