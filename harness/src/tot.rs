//! C18: every stage of the compilation pipeline ends in Ok or Err — one event per stage.
//! The caller (lib/totengine.py) runs this in a child process with memory and time limits: a stage that
//! aborts the process or never returns is detected there (the event "begin" has no matching end).
use crate::sqlx::*;
use crate::util::*;
use qrlew::{
    builder::With,
    differential_privacy::DpParameters,
    privacy_unit_tracking::{privacy_unit::PrivacyUnit, Strategy},
    relation::{Relation, Variant as _},
    sql::parse,
};
use serde_json::{json, Value as J};
use std::io::Write;

fn emit(id: &J, stage: &str, outcome: &str, msg: &str) {
    let mut so = std::io::stdout();
    let _ = writeln!(so, "{}", json!({"case": id, "stage": stage, "outcome": outcome, "msg": msg.chars().take(300).collect::<String>()}));
    let _ = so.flush();
}

fn classify<T, E: std::fmt::Display>(r: Result<Result<T, E>, String>) -> (Option<T>, &'static str, String) {
    match r {
        Ok(Ok(v)) => (Some(v), "ok", String::new()),
        Ok(Err(e)) => (None, "err", format!("{e}")),
        Err(p) => (None, "panic", p),
    }
}

fn run_case(case: &J) {
    let id = &case["id"];
    emit(id, "begin", "ok", "");
    let tables = &case["tables"];
    let sql = case["sql"].as_str().unwrap();
    let relations = match guarded(|| relations_of(tables)) {
        Ok(r) => r,
        Err(p) => {
            emit(id, "tables", "panic", &p);
            emit(id, "end", "ok", "");
            return;
        }
    };
    let (query, o, m) = classify(guarded(|| parse(sql)));
    emit(id, "parse", o, &m);
    let Some(query) = query else {
        emit(id, "end", "ok", "");
        return;
    };
    let (relation, o, m) = classify(guarded(|| Relation::try_from(query.with(&relations))));
    emit(id, "build", o, &m);
    let Some(relation) = relation else {
        emit(id, "end", "ok", "");
        return;
    };
    let (_, o, m) = classify::<String, String>(guarded(|| Ok(format!("{} {}", relation.schema(), relation.size()))));
    emit(id, "schema", o, &m);
    let (_, o, m) = classify::<String, String>(guarded(|| Ok(render(&relation))));
    emit(id, "render", o, &m);
    let pu = PrivacyUnit::from(vec![("t", vec![], "a")]);
    let p = &case["params"];
    let f = |k: &str, d: f64| p.get(k).and_then(|x| x.as_f64()).unwrap_or(d);
    let dp = DpParameters::new(f("epsilon", 1.0), f("delta", 1e-3), f("tau_share", 0.5), f("max_mult", 100.0), f("max_mult_share", 0.1), p.get("max_groups").and_then(|x| x.as_u64()).unwrap_or(5));
    let (pup, o, m) = classify(guarded(|| relation.rewrite_as_privacy_unit_preserving(&relations, None, pu.clone(), dp.clone(), Some(Strategy::Hard))));
    emit(id, "pup", o, &m);
    if let Some(pup) = pup {
        let (_, o, m) = classify::<String, String>(guarded(|| Ok(render(pup.relation()))));
        emit(id, "render_pup", o, &m);
    }
    let (dpr, o, m) = classify(guarded(|| relation.rewrite_with_differential_privacy(&relations, None, pu.clone(), dp.clone())));
    emit(id, "dp", o, &m);
    if let Some(dpr) = dpr {
        let (_, o, m) = classify::<String, String>(guarded(|| Ok(render(dpr.relation()))));
        emit(id, "render_dp", o, &m);
    }
    emit(id, "end", "ok", "");
}

pub fn run(_args: &[String]) -> i32 {
    let stdin = std::io::stdin();
    let mut line = String::new();
    loop {
        line.clear();
        match stdin.read_line(&mut line) {
            Ok(0) | Err(_) => break,
            Ok(_) => {
                if line.trim().is_empty() {
                    continue;
                }
                let case: J = serde_json::from_str(&line).expect("bad case");
                if let Err(p) = guarded(|| run_case(&case)) {
                    emit(&case["id"], "harness", "panic", &p);
                    emit(&case["id"], "end", "ok", "");
                }
            }
        }
    }
    0
}
