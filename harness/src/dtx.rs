//! Data-type universe (spec/DataTypes.tla): concretisation of abstract types and values under order
//! embeddings, projection of real types back, and the replay commands of C11 (lattice), C12 (conversions),
//! C06 (range propagation) and C10 (filter narrowing).
use crate::util::*;
use chrono::{NaiveDate, NaiveDateTime};
use qrlew::data_type::{self, intervals::Intervals, value::Value, DataType, DataTyped, Variant as _};
use serde_json::{json, Value as J};
use std::collections::BTreeMap;
use std::sync::Arc;

#[derive(Clone)]
pub struct Emb {
    pub name: &'static str,
    pub ints: Vec<i64>,
    pub floats: Vec<f64>,
    pub texts: Vec<String>,
    pub dates: Vec<NaiveDate>,
    pub datetimes: Vec<NaiveDateTime>,
}

fn d(y: i32, m: u32, dd: u32) -> NaiveDate {
    NaiveDate::from_ymd_opt(y, m, dd).unwrap()
}

pub fn embeddings() -> Vec<Emb> {
    let base_dates = vec![d(2000, 1, 1), d(2000, 1, 2), d(2000, 3, 1), d(2024, 2, 29), d(2030, 12, 31)];
    let dts = |ds: &Vec<NaiveDate>| -> Vec<NaiveDateTime> {
        vec![
            ds[0].and_hms_opt(0, 0, 0).unwrap(),
            ds[0].and_hms_opt(12, 0, 0).unwrap(),
            ds[1].and_hms_opt(0, 0, 0).unwrap(),
            ds[2].and_hms_opt(0, 0, 0).unwrap(),
            ds[3].and_hms_opt(23, 59, 59).unwrap(),
        ]
    };
    vec![
        Emb {
            name: "default",
            ints: vec![0, 1, 2, 7, 100],
            floats: vec![0.0, 0.5, 1.0, 2.0, 100.0],
            texts: ["0", "1", "a", "b", "c"].iter().map(|s| s.to_string()).collect(),
            dates: base_dates.clone(),
            datetimes: dts(&base_dates),
        },
        Emb {
            name: "extreme",
            ints: vec![i64::MIN, -1, 0, i64::MAX - 1, i64::MAX],
            floats: vec![-f64::MAX, -0.5, 0.0, 1e300, f64::MAX],
            texts: ["", "'", "é", "\u{10FFFE}", "\u{10FFFF}"].iter().map(|s| s.to_string()).collect(),
            dates: vec![NaiveDate::MIN, d(1, 1, 1), d(1970, 1, 1), d(9999, 12, 31), NaiveDate::MAX],
            datetimes: vec![NaiveDateTime::MIN, d(1970, 1, 1).and_hms_opt(0, 0, 0).unwrap(), d(1970, 1, 1).and_hms_nano_opt(0, 0, 0, 1).unwrap(), d(9999, 12, 31).and_hms_opt(0, 0, 0).unwrap(), NaiveDateTime::MAX],
        },
        Emb {
            name: "p53",
            ints: vec![-1, 0, (1i64 << 53) - 1, 1i64 << 53, (1i64 << 53) + 1],
            floats: vec![-1.0, 0.0, 9007199254740991.0, 9007199254740992.0, 9007199254740994.0],
            texts: ["-1", "0", "9007199254740991", "9007199254740992", "9007199254740993"].iter().map(|s| s.to_string()).collect(),
            dates: base_dates.clone(),
            datetimes: dts(&base_dates),
        },
    ]
}

fn ivs<B: data_type::intervals::Bound>(j: &J, pts: &[B]) -> Intervals<B> {
    j.as_array().unwrap().iter().fold(Intervals::empty(), |acc, p| {
        acc.union_interval(pts[p[0].as_u64().unwrap() as usize].clone(), pts[p[1].as_u64().unwrap() as usize].clone())
    })
}

pub fn conc_type(j: &J, e: &Emb) -> DataType {
    match j["k"].as_str().unwrap() {
        "null" => DataType::Null,
        "unit" => DataType::unit(),
        "bytes" => DataType::bytes(),
        "id" => DataType::Id(data_type::Id::new(None, false, Default::default())),
        "any" => DataType::Any,
        "bool" => DataType::Boolean(ivs(&j["ivs"], &[false, true])),
        "int" => DataType::Integer(ivs(&j["ivs"], &e.ints)),
        "float" => DataType::Float(ivs(&j["ivs"], &e.floats)),
        "text" => DataType::Text(ivs(&j["ivs"], &e.texts)),
        "date" => DataType::Date(ivs(&j["ivs"], &e.dates)),
        "datetime" => DataType::DateTime(ivs(&j["ivs"], &e.datetimes)),
        "opt" => DataType::optional(conc_type(&j["t"], e)),
        "struct" => DataType::Struct(data_type::Struct::new(
            j["fields"].as_array().unwrap().iter().map(|f| (f["n"].as_str().unwrap().to_string(), Arc::new(conc_type(&f["t"], e)))).collect(),
        )),
        "union" => DataType::Union(data_type::Union::new(
            j["fields"].as_array().unwrap().iter().map(|f| (f["n"].as_str().unwrap().to_string(), Arc::new(conc_type(&f["t"], e)))).collect(),
        )),
        "list" => DataType::list(conc_type(&j["t"], e), j["lo"].as_u64().unwrap() as usize, j["hi"].as_u64().unwrap() as usize),
        k => panic!("conc_type {k}"),
    }
}

pub fn conc_value(j: &J, e: &Emb) -> Value {
    let p = || j["v"].as_u64().unwrap() as usize;
    match j["k"].as_str().unwrap() {
        "unit" => Value::unit(),
        "none" => Value::none(),
        "some" => Value::some(conc_value(&j["v"], e)),
        "bool" => Value::boolean(p() == 1),
        "int" => Value::integer(e.ints[p()]),
        "float" => Value::float(e.floats[p()]),
        "text" => Value::text(e.texts[p()].clone()),
        "date" => Value::date(e.dates[p()]),
        "datetime" => Value::date_time(e.datetimes[p()]),
        "structv" => Value::structured(j["fields"].as_array().unwrap().iter().map(|f| (f["n"].as_str().unwrap().to_string(), conc_value(&f["v"], e))).collect::<Vec<_>>()),
        "listv" => Value::list(j["vs"].as_array().unwrap().iter().map(|v| conc_value(v, e)).collect::<Vec<_>>()),
        k => panic!("conc_value {k}"),
    }
}

fn proj_ivs<B: data_type::intervals::Bound>(i: &Intervals<B>, pts: &[B], n: usize, inexact: &mut bool) -> J {
    // trace of the interval set on the universe points (exact when every bound is a point)
    let mut out = vec![];
    for [lo, hi] in i.iter() {
        if !pts[..n].iter().any(|p| p == lo) || !pts[..n].iter().any(|p| p == hi) {
            *inexact = true;
        }
        let l = pts[..n].iter().position(|p| p >= lo);
        let h = pts[..n].iter().rposition(|p| p <= hi);
        if let (Some(l), Some(h)) = (l, h) {
            if l <= h {
                out.push(json!([l, h]));
            }
        }
    }
    J::Array(out)
}

/// Abstract description of a real type over the universe of `e` (bounds that are not universe points are
/// projected inwards and the description flagged inexact)
pub fn abs_type(t: &DataType, e: &Emb, n: usize) -> J {
    let mut inexact = false;
    let mut j = match t {
        DataType::Null => json!({"k": "null"}),
        DataType::Unit(_) => json!({"k": "unit"}),
        DataType::Bytes(_) => json!({"k": "bytes"}),
        DataType::Id(_) => json!({"k": "id"}),
        DataType::Any => json!({"k": "any"}),
        DataType::Boolean(b) => json!({"k": "bool", "ivs": proj_ivs(b, &[false, true], 2, &mut inexact)}),
        DataType::Integer(i) => json!({"k": "int", "ivs": proj_ivs(i, &e.ints, n, &mut inexact)}),
        DataType::Float(i) => json!({"k": "float", "ivs": proj_ivs(i, &e.floats, n, &mut inexact)}),
        DataType::Text(i) => json!({"k": "text", "ivs": proj_ivs(i, &e.texts, n, &mut inexact)}),
        DataType::Date(i) => json!({"k": "date", "ivs": proj_ivs(i, &e.dates, n, &mut inexact)}),
        DataType::DateTime(i) => json!({"k": "datetime", "ivs": proj_ivs(i, &e.datetimes, n, &mut inexact)}),
        DataType::Optional(o) => json!({"k": "opt", "t": abs_type(o.data_type(), e, n)}),
        DataType::Struct(s) => json!({"k": "struct", "fields": s.fields().iter().map(|(nm, t)| json!({"n": nm, "t": abs_type(t, e, n)})).collect::<Vec<_>>()}),
        DataType::Union(s) => json!({"k": "union", "fields": s.fields().iter().map(|(nm, t)| json!({"n": nm, "t": abs_type(t, e, n)})).collect::<Vec<_>>()}),
        DataType::List(l) => json!({"k": "list", "t": abs_type(l.data_type(), e, n), "lo": l.size().min().cloned().unwrap_or(0).clamp(0, 1000), "hi": l.size().max().cloned().unwrap_or(0).clamp(0, 1000)}),
        other => json!({"k": "other", "debug": format!("{}", other)}),
    };
    if inexact {
        j["inexact"] = json!(true);
    }
    j
}

/// Membership of a value in a type, modulo the library's own injection of the value into the variant of the
/// type (an Integer value belongs to Optional(Integer) as Some(value), to a Float type as the equal float, ...)
fn member(t: &DataType, v: &Value) -> bool {
    use qrlew::data_type::value::Variant as _;
    // (the conversion entry point unwraps internally on some out-of-range values: a panic there is "no injection")
    t.contains(v) || guarded(|| v.as_data_type(t).map(|w| t.contains(&w)).unwrap_or(false)).unwrap_or(false)
}

fn b01(b: bool) -> J {
    json!(if b { 1 } else { 0 })
}

/// C11: lattice laws.  stdin: {"values": [...], "n": N} then {"a":..,"b":..} per line.
pub fn lattice(_args: &[String]) -> i32 {
    let mut cases = read_cases();
    let header = cases.remove(0);
    let n = header["n"].as_u64().unwrap() as usize;
    let values = header["values"].as_array().unwrap().clone();
    let mut acc: BTreeMap<String, (u64, Vec<String>)> = BTreeMap::new();
    let mut out = Out::new();
    for e in embeddings() {
        let vals: Vec<Value> = values.iter().map(|v| conc_value(v, &e)).collect();
        // a value is contained in its own inferred type
        let own: Vec<J> = vals.iter().map(|v| b01(guarded(|| v.data_type().contains(v)).unwrap_or(false))).collect();
        out.put(&json!({"op": "own", "emb": e.name, "own": own}));
        for c in &cases {
            let r = guarded(|| {
                let a = conc_type(&c["a"], &e);
                let b = conc_type(&c["b"], &e);
                // "v in A" is the library's `contains`; "v in B / union / intersection" also accepts the injected value
                let ca: Vec<J> = vals.iter().map(|v| b01(a.contains(v))).collect();
                let cb0: Vec<J> = vals.iter().map(|v| b01(b.contains(v))).collect();
                let cb: Vec<J> = vals.iter().map(|v| b01(member(&b, v))).collect();
                let sub = a.is_subset_of(&b);
                let u = a.super_union(&b);
                let i = a.super_intersection(&b);
                let cu: Vec<J> = match &u {
                    Ok(u) => vals.iter().map(|v| b01(member(u, v))).collect(),
                    Err(_) => vec![],
                };
                let ci: Vec<J> = match &i {
                    Ok(i) => vals.iter().map(|v| b01(member(i, v))).collect(),
                    Err(_) => vec![],
                };
                json!({"op": "pair", "a": c["a"], "b": c["b"], "sub": sub, "ca": ca, "cb": cb, "cb0": cb0,
                       "u_ok": u.is_ok(), "cu": cu, "u_abs": u.as_ref().map(|u| abs_type(u, &e, n)).unwrap_or(json!({"k": "err"})),
                       "i_ok": i.is_ok(), "ci": ci, "i_abs": i.as_ref().map(|i| abs_type(i, &e, n)).unwrap_or(json!({"k": "err"})), "panic": false})
            });
            let obs = r.unwrap_or_else(|p| json!({"op": "pair", "a": c["a"], "b": c["b"], "panic": true, "msg": p, "sub": false, "ca": [], "cb": [], "cb0": [], "cu": [], "ci": [], "u_ok": false, "i_ok": false, "u_abs": {"k": "err"}, "i_abs": {"k": "err"}}));
            let key = serde_json::to_string(&obs).unwrap();
            let en = acc.entry(key).or_insert((0, vec![]));
            en.0 += 1;
            en.1.push(e.name.to_string());
        }
    }
    for (k, (count, embs)) in acc {
        let mut obs: J = serde_json::from_str(&k).unwrap();
        obs["count"] = json!(count);
        obs["embs"] = json!(embs);
        out.put(&obs);
    }
    out.flush();
    0
}
