//! Data-type universe (spec/DataTypes.tla): concretisation of abstract types and values under order
//! embeddings, projection of real types back, and the replay commands of C11 (lattice), C12 (conversions),
//! C06 (range propagation) and C10 (filter narrowing).
use crate::util::*;
use chrono::{NaiveDate, NaiveDateTime};
use qrlew::data_type::{self, intervals::Intervals, value::Value, DataType, DataTyped, Variant as _};
use serde_json::{json, Value as J};
use std::collections::BTreeMap;
use std::ops::Deref;
use std::sync::Arc;

#[derive(Clone)]
pub struct Emb {
    pub name: &'static str,
    pub ints: Vec<i64>,
    pub floats: Vec<f64>,
    pub texts: Vec<String>,
    pub dates: Vec<NaiveDate>,
    pub datetimes: Vec<NaiveDateTime>,
}

fn d(y: i32, m: u32, dd: u32) -> NaiveDate {
    NaiveDate::from_ymd_opt(y, m, dd).unwrap()
}

pub fn embeddings() -> Vec<Emb> {
    let base_dates = vec![d(2000, 1, 1), d(2000, 1, 2), d(2000, 3, 1), d(2024, 2, 29), d(2030, 12, 31)];
    let dts = |ds: &Vec<NaiveDate>| -> Vec<NaiveDateTime> {
        vec![
            ds[0].and_hms_opt(0, 0, 0).unwrap(),
            ds[0].and_hms_opt(12, 0, 0).unwrap(),
            ds[1].and_hms_opt(0, 0, 0).unwrap(),
            ds[2].and_hms_opt(0, 0, 0).unwrap(),
            ds[3].and_hms_opt(23, 59, 59).unwrap(),
        ]
    };
    vec![
        Emb {
            name: "default",
            ints: vec![0, 1, 2, 7, 100],
            floats: vec![0.0, 0.5, 1.0, 2.0, 100.0],
            texts: ["0", "1", "a", "b", "c"].iter().map(|s| s.to_string()).collect(),
            dates: base_dates.clone(),
            datetimes: dts(&base_dates),
        },
        Emb {
            name: "extreme",
            ints: vec![i64::MIN, -1, 0, i64::MAX - 1, i64::MAX],
            floats: vec![-f64::MAX, -0.5, 0.0, 1e300, f64::MAX],
            texts: ["", "'", "é", "\u{10FFFE}", "\u{10FFFF}"].iter().map(|s| s.to_string()).collect(),
            dates: vec![NaiveDate::MIN, d(1, 1, 1), d(1970, 1, 1), d(9999, 12, 31), NaiveDate::MAX],
            datetimes: vec![NaiveDateTime::MIN, d(1970, 1, 1).and_hms_opt(0, 0, 0).unwrap(), d(1970, 1, 1).and_hms_nano_opt(0, 0, 0, 1).unwrap(), d(9999, 12, 31).and_hms_opt(0, 0, 0).unwrap(), NaiveDateTime::MAX],
        },
        Emb {
            name: "p53",
            ints: vec![-1, 0, (1i64 << 53) - 1, 1i64 << 53, (1i64 << 53) + 1],
            floats: vec![-1.0, 0.0, 9007199254740991.0, 9007199254740992.0, 9007199254740994.0],
            texts: ["-1", "0", "9007199254740991", "9007199254740992", "9007199254740993"].iter().map(|s| s.to_string()).collect(),
            dates: base_dates.clone(),
            datetimes: dts(&base_dates),
        },
    ]
}

fn ivs<B: data_type::intervals::Bound>(j: &J, pts: &[B]) -> Intervals<B> {
    j.as_array().unwrap().iter().fold(Intervals::empty(), |acc, p| {
        acc.union_interval(pts[p[0].as_u64().unwrap() as usize].clone(), pts[p[1].as_u64().unwrap() as usize].clone())
    })
}

pub fn conc_type(j: &J, e: &Emb) -> DataType {
    match j["k"].as_str().unwrap() {
        "null" => DataType::Null,
        "unit" => DataType::unit(),
        "bytes" => DataType::bytes(),
        "id" => DataType::Id(data_type::Id::new(None, false, Default::default())),
        "any" => DataType::Any,
        "bool" => DataType::Boolean(ivs(&j["ivs"], &[false, true])),
        "int" => DataType::Integer(ivs(&j["ivs"], &e.ints)),
        "float" => DataType::Float(ivs(&j["ivs"], &e.floats)),
        "text" => DataType::Text(ivs(&j["ivs"], &e.texts)),
        "date" => DataType::Date(ivs(&j["ivs"], &e.dates)),
        "datetime" => DataType::DateTime(ivs(&j["ivs"], &e.datetimes)),
        "opt" => DataType::optional(conc_type(&j["t"], e)),
        "struct" => DataType::Struct(data_type::Struct::new(
            j["fields"].as_array().unwrap().iter().map(|f| (f["n"].as_str().unwrap().to_string(), Arc::new(conc_type(&f["t"], e)))).collect(),
        )),
        "union" => DataType::Union(data_type::Union::new(
            j["fields"].as_array().unwrap().iter().map(|f| (f["n"].as_str().unwrap().to_string(), Arc::new(conc_type(&f["t"], e)))).collect(),
        )),
        "list" => DataType::list(conc_type(&j["t"], e), j["lo"].as_u64().unwrap() as usize, j["hi"].as_u64().unwrap() as usize),
        k => panic!("conc_type {k}"),
    }
}

pub fn conc_value(j: &J, e: &Emb) -> Value {
    let p = || j["v"].as_u64().unwrap() as usize;
    match j["k"].as_str().unwrap() {
        "unit" => Value::unit(),
        "none" => Value::none(),
        "some" => Value::some(conc_value(&j["v"], e)),
        "bool" => Value::boolean(p() == 1),
        "int" => Value::integer(e.ints[p()]),
        "float" => Value::float(e.floats[p()]),
        "text" => Value::text(e.texts[p()].clone()),
        "date" => Value::date(e.dates[p()]),
        "datetime" => Value::date_time(e.datetimes[p()]),
        "structv" => Value::structured(j["fields"].as_array().unwrap().iter().map(|f| (f["n"].as_str().unwrap().to_string(), conc_value(&f["v"], e))).collect::<Vec<_>>()),
        "listv" => Value::list(j["vs"].as_array().unwrap().iter().map(|v| conc_value(v, e)).collect::<Vec<_>>()),
        k => panic!("conc_value {k}"),
    }
}

fn proj_ivs<B: data_type::intervals::Bound>(i: &Intervals<B>, pts: &[B], n: usize, inexact: &mut bool) -> J {
    // trace of the interval set on the universe points (exact when every bound is a point)
    let mut out = vec![];
    for [lo, hi] in i.iter() {
        if !pts[..n].iter().any(|p| p == lo) || !pts[..n].iter().any(|p| p == hi) {
            *inexact = true;
        }
        let l = pts[..n].iter().position(|p| p >= lo);
        let h = pts[..n].iter().rposition(|p| p <= hi);
        if let (Some(l), Some(h)) = (l, h) {
            if l <= h {
                out.push(json!([l, h]));
            }
        }
    }
    J::Array(out)
}

/// Abstract description of a real type over the universe of `e` (bounds that are not universe points are
/// projected inwards and the description flagged inexact)
pub fn abs_type(t: &DataType, e: &Emb, n: usize) -> J {
    let mut inexact = false;
    let mut j = match t {
        DataType::Null => json!({"k": "null"}),
        DataType::Unit(_) => json!({"k": "unit"}),
        DataType::Bytes(_) => json!({"k": "bytes"}),
        DataType::Id(_) => json!({"k": "id"}),
        DataType::Any => json!({"k": "any"}),
        DataType::Boolean(b) => json!({"k": "bool", "ivs": proj_ivs(b, &[false, true], 2, &mut inexact)}),
        DataType::Integer(i) => json!({"k": "int", "ivs": proj_ivs(i, &e.ints, n, &mut inexact)}),
        DataType::Float(i) => json!({"k": "float", "ivs": proj_ivs(i, &e.floats, n, &mut inexact)}),
        DataType::Text(i) => json!({"k": "text", "ivs": proj_ivs(i, &e.texts, n, &mut inexact)}),
        DataType::Date(i) => json!({"k": "date", "ivs": proj_ivs(i, &e.dates, n, &mut inexact)}),
        DataType::DateTime(i) => json!({"k": "datetime", "ivs": proj_ivs(i, &e.datetimes, n, &mut inexact)}),
        DataType::Optional(o) => json!({"k": "opt", "t": abs_type(o.data_type(), e, n)}),
        DataType::Struct(s) => json!({"k": "struct", "fields": s.fields().iter().map(|(nm, t)| json!({"n": nm, "t": abs_type(t, e, n)})).collect::<Vec<_>>()}),
        DataType::Union(s) => json!({"k": "union", "fields": s.fields().iter().map(|(nm, t)| json!({"n": nm, "t": abs_type(t, e, n)})).collect::<Vec<_>>()}),
        DataType::List(l) => json!({"k": "list", "t": abs_type(l.data_type(), e, n), "lo": l.size().min().cloned().unwrap_or(0).clamp(0, 1000), "hi": l.size().max().cloned().unwrap_or(0).clamp(0, 1000)}),
        other => json!({"k": "other", "debug": format!("{}", other)}),
    };
    if inexact {
        j["inexact"] = json!(true);
    }
    j
}

/// Membership of a value in a type, modulo the library's own injection of the value into the variant of the
/// type (an Integer value belongs to Optional(Integer) as Some(value), to a Float type as the equal float, ...)
fn member(t: &DataType, v: &Value) -> bool {
    use qrlew::data_type::value::Variant as _;
    // (the conversion entry point unwraps internally on some out-of-range values: a panic there is "no injection")
    t.contains(v) || guarded(|| v.as_data_type(t).map(|w| t.contains(&w)).unwrap_or(false)).unwrap_or(false)
}

fn b01(b: bool) -> J {
    json!(if b { 1 } else { 0 })
}

/// C11: lattice laws.  stdin: {"values": [...], "n": N} then {"a":..,"b":..} per line.
pub fn lattice(_args: &[String]) -> i32 {
    let mut cases = read_cases();
    let header = cases.remove(0);
    let n = header["n"].as_u64().unwrap() as usize;
    let values = header["values"].as_array().unwrap().clone();
    let mut acc: BTreeMap<String, (u64, Vec<String>)> = BTreeMap::new();
    let mut out = Out::new();
    for e in embeddings() {
        let vals: Vec<Value> = values.iter().map(|v| conc_value(v, &e)).collect();
        // a value is contained in its own inferred type
        let own: Vec<J> = vals.iter().map(|v| b01(guarded(|| v.data_type().contains(v)).unwrap_or(false))).collect();
        out.put(&json!({"op": "own", "emb": e.name, "own": own}));
        for c in &cases {
            let r = guarded(|| {
                let a = conc_type(&c["a"], &e);
                let b = conc_type(&c["b"], &e);
                // "v in A" is the library's `contains`; "v in B / union / intersection" also accepts the injected value
                let ca: Vec<J> = vals.iter().map(|v| b01(a.contains(v))).collect();
                let cb0: Vec<J> = vals.iter().map(|v| b01(b.contains(v))).collect();
                let cb: Vec<J> = vals.iter().map(|v| b01(member(&b, v))).collect();
                let sub = a.is_subset_of(&b);
                let u = a.super_union(&b);
                let i = a.super_intersection(&b);
                let cu: Vec<J> = match &u {
                    Ok(u) => vals.iter().map(|v| b01(member(u, v))).collect(),
                    Err(_) => vec![],
                };
                let ci: Vec<J> = match &i {
                    Ok(i) => vals.iter().map(|v| b01(member(i, v))).collect(),
                    Err(_) => vec![],
                };
                json!({"op": "pair", "a": c["a"], "b": c["b"], "sub": sub, "ca": ca, "cb": cb, "cb0": cb0,
                       "u_ok": u.is_ok(), "cu": cu, "u_abs": u.as_ref().map(|u| abs_type(u, &e, n)).unwrap_or(json!({"k": "err"})),
                       "i_ok": i.is_ok(), "ci": ci, "i_abs": i.as_ref().map(|i| abs_type(i, &e, n)).unwrap_or(json!({"k": "err"})), "panic": false})
            });
            let obs = r.unwrap_or_else(|p| json!({"op": "pair", "a": c["a"], "b": c["b"], "panic": true, "msg": p, "sub": false, "ca": [], "cb": [], "cb0": [], "cu": [], "ci": [], "u_ok": false, "i_ok": false, "u_abs": {"k": "err"}, "i_abs": {"k": "err"}}));
            let key = serde_json::to_string(&obs).unwrap();
            let en = acc.entry(key).or_insert((0, vec![]));
            en.0 += 1;
            en.1.push(e.name.to_string());
        }
    }
    for (k, (count, embs)) in acc {
        let mut obs: J = serde_json::from_str(&k).unwrap();
        obs["count"] = json!(count);
        obs["embs"] = json!(embs);
        out.put(&obs);
    }
    out.flush();
    0
}

// ---------------------------------------------------------------------------------------------
// expressions (C06, C10)

use qrlew::data_type::function::Function as _;
use qrlew::expr::{aggregate::Aggregate, function::Function as F, Expr};

pub fn function_by_name(name: &str) -> Option<F> {
    Some(match name {
        "opposite" => F::Opposite,
        "not" => F::Not,
        "plus" => F::Plus,
        "minus" => F::Minus,
        "multiply" => F::Multiply,
        "divide" => F::Divide,
        "modulo" => F::Modulo,
        "string_concat" => F::StringConcat,
        "in_list" => F::InList,
        "gt" => F::Gt,
        "lt" => F::Lt,
        "gt_eq" => F::GtEq,
        "lt_eq" => F::LtEq,
        "eq" => F::Eq,
        "not_eq" => F::NotEq,
        "and" => F::And,
        "or" => F::Or,
        "xor" => F::Xor,
        "exp" => F::Exp,
        "ln" => F::Ln,
        "log" => F::Log,
        "abs" => F::Abs,
        "sin" => F::Sin,
        "cos" => F::Cos,
        "sqrt" => F::Sqrt,
        "pow" => F::Pow,
        "case" => F::Case,
        "concat" => F::Concat(2),
        "char_length" => F::CharLength,
        "lower" => F::Lower,
        "upper" => F::Upper,
        "md5" => F::Md5,
        "position" => F::Position,
        "cast_as_text" => F::CastAsText,
        "cast_as_float" => F::CastAsFloat,
        "cast_as_integer" => F::CastAsInteger,
        "cast_as_boolean" => F::CastAsBoolean,
        "cast_as_date_time" => F::CastAsDateTime,
        "cast_as_date" => F::CastAsDate,
        "least" => F::Least,
        "greatest" => F::Greatest,
        "rtrim" => F::Rtrim,
        "ltrim" => F::Ltrim,
        "substr" => F::Substr,
        "substr_with_size" => F::SubstrWithSize,
        "ceil" => F::Ceil,
        "floor" => F::Floor,
        "round" => F::Round,
        "trunc" => F::Trunc,
        "extract_year" => F::ExtractYear,
        "extract_month" => F::ExtractMonth,
        "extract_day" => F::ExtractDay,
        "extract_hour" => F::ExtractHour,
        "extract_dow" => F::ExtractDow,
        "extract_week" => F::ExtractWeek,
        "extract_epoch" => F::ExtractEpoch,
        "dayname" => F::Dayname,
        "quarter" => F::Quarter,
        "date" => F::Date,
        "unix_timestamp" => F::UnixTimestamp,
        "coalesce" => F::Coalesce,
        "sign" => F::Sign,
        "is_null" => F::IsNull,
        "like" => F::Like,
        _ => return None,
    })
}

pub fn aggregate_by_name(name: &str) -> Option<Aggregate> {
    Some(match name {
        "min" => Aggregate::Min,
        "max" => Aggregate::Max,
        "median" => Aggregate::Median,
        "n_unique" => Aggregate::NUnique,
        "first" => Aggregate::First,
        "last" => Aggregate::Last,
        "mean" => Aggregate::Mean,
        "mean_distinct" => Aggregate::MeanDistinct,
        "count" => Aggregate::Count,
        "count_distinct" => Aggregate::CountDistinct,
        "sum" => Aggregate::Sum,
        "sum_distinct" => Aggregate::SumDistinct,
        "std" => Aggregate::Std,
        "std_distinct" => Aggregate::StdDistinct,
        "var" => Aggregate::Var,
        "var_distinct" => Aggregate::VarDistinct,
        _ => return None,
    })
}

/// term: {"col": i} | {"lit": abstract value} | {"f": name, "args": [term]} | {"agg": name, "arg": term}
pub fn conc_expr(t: &J, e: &Emb) -> Expr {
    if let Some(i) = t.get("col").and_then(|c| c.as_u64()) {
        return Expr::col(format!("c{}", i));
    }
    if let Some(v) = t.get("lit") {
        return Expr::Value(conc_value(v, e));
    }
    if let Some(l) = t.get("list").and_then(|l| l.as_array()) {
        return Expr::Value(Value::list(l.iter().map(|v| conc_value(v, e)).collect::<Vec<_>>()));
    }
    if let Some(a) = t.get("agg").and_then(|a| a.as_str()) {
        return Expr::Aggregate(qrlew::expr::Aggregate::new(aggregate_by_name(a).expect("aggregate"), Arc::new(conc_expr(&t["arg"], e))));
    }
    let f = function_by_name(t["f"].as_str().unwrap()).expect("function");
    Expr::Function(qrlew::expr::Function::new(f, t["args"].as_array().unwrap().iter().map(|a| Arc::new(conc_expr(a, e))).collect()))
}

/// universe values inside an abstract column type (for the enumeration of rows)
fn points_of(t: &J, n: usize) -> Vec<J> {
    match t["k"].as_str().unwrap() {
        "opt" => {
            let mut v = vec![json!({"k": "none"})];
            v.extend(points_of(&t["t"], n).into_iter().map(|x| json!({"k": "some", "v": x})));
            v
        }
        "list" => {
            // lists of universe values of the element type, of every admissible length up to 3
            let el = points_of(&t["t"], n);
            let lo = t["lo"].as_u64().unwrap() as usize;
            let hi = (t["hi"].as_u64().unwrap() as usize).min(3);
            let mut out: Vec<Vec<J>> = vec![vec![]];
            let mut all: Vec<Vec<J>> = vec![];
            for len in 0..=hi {
                if len >= lo {
                    all.extend(out.iter().cloned());
                }
                if len < hi {
                    let mut next = vec![];
                    for l in &out {
                        for x in &el {
                            let mut m = l.clone();
                            m.push(x.clone());
                            next.push(m);
                        }
                    }
                    out = next;
                }
            }
            all.into_iter().map(|vs| json!({"k": "listv", "vs": vs})).collect()
        }
        "struct" => {
            // the product of the fields' points
            let fields = t["fields"].as_array().unwrap();
            let mut rows: Vec<Vec<J>> = vec![vec![]];
            for f in fields {
                let pts = points_of(&f["t"], n);
                rows = rows.iter().flat_map(|r| pts.iter().map(move |p| { let mut m = r.clone(); m.push(json!({"n": f["n"], "v": p})); m })).collect();
            }
            rows.into_iter().map(|fs| json!({"k": "structv", "fields": fs})).collect()
        }
        k @ ("bool" | "int" | "float" | "text" | "date" | "datetime") => {
            let mut out = vec![];
            for p in t["ivs"].as_array().unwrap() {
                for x in p[0].as_u64().unwrap()..=p[1].as_u64().unwrap() {
                    let _ = n;
                    out.push(json!({"k": k, "v": x}));
                }
            }
            out
        }
        _ => vec![],
    }
}

fn rows_of(cols: &[J], n: usize, cap: usize) -> Vec<Vec<J>> {
    let mut rows: Vec<Vec<J>> = vec![vec![]];
    for c in cols {
        let pts = points_of(c, n);
        let mut next = vec![];
        for r in &rows {
            for p in &pts {
                let mut m = r.clone();
                m.push(p.clone());
                next.push(m);
            }
        }
        rows = next;
        if rows.len() > cap {
            // thin out deterministically
            let step = rows.len() / cap + 1;
            rows = rows.into_iter().step_by(step).collect();
        }
    }
    rows
}

fn more_embeddings() -> Vec<Emb> {
    let mut v = embeddings();
    let base = v[0].clone();
    v.push(Emb { name: "around_zero", ints: vec![-2, -1, 0, 1, 2], floats: vec![-1.5, -0.5, 0.0, 0.5, 1.5], ..base.clone() });
    v.push(Emb { name: "positive", ints: vec![1, 2, 3, 10, 1000], floats: vec![0.25, 1.0, 2.5, 10.0, 1e6], ..base.clone() });
    // points on both sides of the quarter periods of sin / cos (pi/2, 3pi/2, 2pi) and of the sign changes of the periodic pieces
    v.push(Emb { name: "periods", ints: vec![-2, 1, 4, 5, 8], floats: vec![-2.0, 1.0, 4.6, 6.0, 8.0], ..base });
    v
}

/// C06: range propagation.  stdin: {"n": N} then {"expr": term, "cols": [types]} per line.
pub fn image(_args: &[String]) -> i32 {
    let mut cases = read_cases();
    let header = cases.remove(0);
    let n = header["n"].as_u64().unwrap() as usize;
    let mut out = Out::new();
    for e in more_embeddings() {
        for (ci, c) in cases.iter().enumerate() {
            let cols: Vec<J> = c["cols"].as_array().unwrap().clone();
            let r = guarded(|| {
                let expr = conc_expr(&c["expr"], &e);
                let st = DataType::structured(cols.iter().enumerate().map(|(i, t)| (format!("c{}", i), conc_type(t, &e))).collect::<Vec<_>>());
                let img = guarded(|| expr.super_image(&st));
                let (image_outcome, image) = match &img {
                    Ok(Ok(t)) => ("ok", crate::dt::dt_json(t)),
                    Ok(Err(er)) => ("err", json!(format!("{er}"))),
                    Err(p) => ("panic", json!(p)),
                };
                let mut pts = vec![];
                for row in rows_of(&cols, n, 48) {
                    let rv = Value::structured(row.iter().enumerate().map(|(i, v)| (format!("c{}", i), conc_value(v, &e))).collect::<Vec<_>>());
                    let y = guarded(|| expr.value(&rv));
                    let (vo, yj, inside) = match &y {
                        Ok(Ok(y)) => ("ok", crate::dt::value_json(y), match &img {
                            Ok(Ok(t)) => member(t, y),
                            _ => false,
                        }),
                        Ok(Err(er)) => ("err", json!(format!("{er}").chars().take(120).collect::<String>()), false),
                        Err(p) => ("panic", json!(p), false),
                    };
                    pts.push(json!({"row": row, "value": vo, "y": yj, "lib_contains": inside}));
                }
                json!({"case": ci, "emb": e.name, "image": image_outcome, "image_type": image, "points": pts})
            });
            out.put(&r.unwrap_or_else(|p| json!({"case": ci, "emb": e.name, "image": "harness_panic", "image_type": p, "points": []})));
        }
    }
    out.flush();
    0
}

/// C14 (expressions): which projections of a UNIQUE column keep the constraint.  stdin: {"n": N} then
/// {"expr": term over column 0, "cols": [type]} per line.  For every embedding: the constraint the real Map gives the
/// projected column, and the value of the expression on every universe point of the column (distinct inputs).
pub fn unique(_args: &[String]) -> i32 {
    use qrlew::builder::{Ready, With};
    use qrlew::relation::{field::Constraint, Field, Relation, Schema, Variant as _};
    let mut cases = read_cases();
    let header = cases.remove(0);
    let n = header["n"].as_u64().unwrap() as usize;
    let mut out = Out::new();
    for e in more_embeddings() {
        for (ci, c) in cases.iter().enumerate() {
            let cols: Vec<J> = c["cols"].as_array().unwrap().clone();
            let r = guarded(|| {
                let expr = conc_expr(&c["expr"], &e);
                let table: Relation = Relation::table()
                    .name("t")
                    .schema(Schema::new(vec![Field::new("c0".to_string(), conc_type(&cols[0], &e), Some(Constraint::Unique))]))
                    .size(10)
                    .build();
                let map = guarded(|| -> Relation { Relation::map().with(("y", expr.clone())).input(table.clone()).build() });
                let (mo, kept) = match &map {
                    Ok(m) => ("ok", m.schema()[0].has_unique_or_primary_key_constraint()),
                    Err(_) => ("panic", false),
                };
                let mut ys = vec![];
                for row in rows_of(&cols[..1], n, 48) {
                    let rv = Value::structured(vec![("c0".to_string(), conc_value(&row[0], &e))]);
                    ys.push(match guarded(|| expr.value(&rv)) {
                        Ok(Ok(y)) => crate::dt::value_json(&y),
                        _ => json!({"k": "err"}),
                    });
                }
                json!({"case": ci, "emb": e.name, "map": mo, "unique_kept": kept, "ys": ys})
            });
            out.put(&r.unwrap_or_else(|p| json!({"case": ci, "emb": e.name, "map": "harness_panic", "unique_kept": false, "ys": [], "msg": p})));
        }
    }
    out.flush();
    0
}

/// C10 (ON clause): the predicate cases of dt-filter used as the ON condition of a join of l(c0) and r(c1), for the four
/// join kinds.  Output per (case, kind, embedding): for every pair of universe rows the truth value of the predicate and
/// the membership of each side's value in the type of the corresponding output column of the real Join.
pub fn joinfilter(_args: &[String]) -> i32 {
    use qrlew::builder::{Ready, With};
    use qrlew::relation::{Field, Join, Relation, Schema, Variant as _};
    fn qualify(e: &Expr) -> Expr {
        match e {
            Expr::Column(c) => {
                let name: String = c.last().unwrap().to_string();
                let side = if name == "c0" { Join::left_name() } else { Join::right_name() };
                Expr::qcol(side, &name[..])
            }
            Expr::Function(f) => Expr::Function(qrlew::expr::Function::new(f.function(), f.arguments().iter().map(|a| Arc::new(qualify(a))).collect())),
            other => other.clone(),
        }
    }
    let mut cases = read_cases();
    let header = cases.remove(0);
    let n = header["n"].as_u64().unwrap() as usize;
    let mut out = Out::new();
    for e in more_embeddings() {
        for (ci, c) in cases.iter().enumerate() {
            let cols: Vec<J> = c["cols"].as_array().unwrap().clone();
            for kind in ["inner", "left", "right", "full"] {
                let r = guarded(|| {
                    let pred = conc_expr(&c["pred"], &e);
                    let on = qualify(&pred);
                    let l: Relation = Relation::table().name("l").schema(Schema::new(vec![Field::new("c0".to_string(), conc_type(&cols[0], &e), None)])).size(10).build();
                    let rr: Relation = Relation::table().name("r").schema(Schema::new(vec![Field::new("c1".to_string(), conc_type(&cols[1], &e), None)])).size(10).build();
                    let join = guarded(|| -> Relation {
                        let b = Relation::join().left(l.clone()).right(rr.clone());
                        match kind {
                            "inner" => b.inner(on.clone()),
                            "left" => b.left_outer(on.clone()),
                            "right" => b.right_outer(on.clone()),
                            _ => b.full_outer(on.clone()),
                        }
                        .build()
                    });
                    let (jo, lt, rt) = match &join {
                        Ok(j) => ("ok", Some(j.schema()[0].data_type()), Some(j.schema()[1].data_type())),
                        Err(_) => ("panic", None, None),
                    };
                    let inside = |t: &Option<DataType>, v: &Value| -> bool {
                        match t {
                            Some(t) => member(t, v) || matches!(t, DataType::Optional(o) if member(o.data_type(), v)),
                            None => false,
                        }
                    };
                    let nullable = |t: &Option<DataType>| matches!(t, Some(DataType::Optional(_)) | Some(DataType::Any));
                    let mut rows = vec![];
                    for row in rows_of(&cols, n, 64) {
                        let (lv, rv) = (conc_value(&row[0], &e), conc_value(&row[1], &e));
                        let sv = Value::structured(vec![("c0".to_string(), lv.clone()), ("c1".to_string(), rv.clone())]);
                        let pv = match guarded(|| pred.value(&sv)) {
                            Ok(Ok(Value::Boolean(b))) => if *b.deref() { "true" } else { "false" },
                            Ok(Ok(Value::Optional(o))) => match o.as_deref() {
                                Some(Value::Boolean(b)) => if *b.deref() { "true" } else { "false" },
                                None => "null",
                                _ => "other",
                            },
                            Ok(Ok(_)) => "other",
                            Ok(Err(_)) => "err",
                            Err(_) => "panic",
                        };
                        rows.push(json!({"row": row, "pred": pv, "l_in": inside(&lt, &lv), "r_in": inside(&rt, &rv)}));
                    }
                    json!({"case": ci, "emb": e.name, "kind": kind, "join": jo, "l_nullable": nullable(&lt), "r_nullable": nullable(&rt),
                           "l_type": lt.as_ref().map(|t| t.to_string()), "r_type": rt.as_ref().map(|t| t.to_string()), "rows": rows})
                });
                out.put(&r.unwrap_or_else(|p| json!({"case": ci, "emb": e.name, "kind": kind, "join": "harness_panic", "msg": p, "l_nullable": false, "r_nullable": false, "rows": []})));
            }
        }
    }
    out.flush();
    0
}

/// C10: filter narrowing.  stdin: {"n": N} then {"pred": term, "cols": [types]} per line.
pub fn filter(_args: &[String]) -> i32 {
    let mut cases = read_cases();
    let header = cases.remove(0);
    let n = header["n"].as_u64().unwrap() as usize;
    let mut out = Out::new();
    for e in more_embeddings() {
        for (ci, c) in cases.iter().enumerate() {
            let cols: Vec<J> = c["cols"].as_array().unwrap().clone();
            let r = guarded(|| {
                let pred = conc_expr(&c["pred"], &e);
                let st = DataType::structured(cols.iter().enumerate().map(|(i, t)| (format!("c{}", i), conc_type(t, &e))).collect::<Vec<_>>());
                let narrowed = guarded(|| st.filter(&pred));
                let (fo, nt) = match &narrowed {
                    Ok(t) => ("ok", abs_type(t, &e, n)),
                    Err(p) => ("panic", json!({"k": "err", "msg": p})),
                };
                let mut rows = vec![];
                for row in rows_of(&cols, n, 64) {
                    let rv = Value::structured(row.iter().enumerate().map(|(i, v)| (format!("c{}", i), conc_value(v, &e))).collect::<Vec<_>>());
                    let p = guarded(|| pred.value(&rv));
                    let pv = match &p {
                        Ok(Ok(Value::Boolean(b))) => {
                            if *b.deref() {
                                "true"
                            } else {
                                "false"
                            }
                        }
                        Ok(Ok(Value::Optional(o))) => match o.as_deref() {
                            Some(Value::Boolean(b)) => {
                                if *b.deref() {
                                    "true"
                                } else {
                                    "false"
                                }
                            }
                            None => "null",
                            _ => "other",
                        },
                        Ok(Ok(_)) => "other",
                        Ok(Err(_)) => "err",
                        Err(_) => "panic",
                    };
                    // membership modulo the library's own injection, field by field: narrowing an integer column
                    // against a float literal types it as float, and an integer row value belongs to it once injected
                    let inside = match &narrowed {
                        Ok(DataType::Struct(s)) => {
                            s.fields().len() == row.len()
                                && s.fields().iter().zip(row.iter()).all(|((_, ft), v)| member(ft, &conc_value(v, &e)))
                        }
                        Ok(t) => t.contains(&rv),
                        Err(_) => false,
                    };
                    let before = st.contains(&rv);
                    rows.push(json!({"row": row, "pred": pv, "in": inside, "in_input": before}));
                }
                json!({"case": ci, "emb": e.name, "filter": fo, "narrowed": nt, "rows": rows})
            });
            out.put(&r.unwrap_or_else(|p| json!({"case": ci, "emb": e.name, "filter": "harness_panic", "narrowed": {"k": "err", "msg": p}, "rows": []})));
        }
    }
    out.flush();
    0
}

/// C12: conversions.  stdin: {"n": N} then {"a": type, "to": kind} per line.
pub fn convert(_args: &[String]) -> i32 {
    use qrlew::data_type::injection::{InjectInto, Injection};
    let mut cases = read_cases();
    let header = cases.remove(0);
    let n = header["n"].as_u64().unwrap() as usize;
    let mut out = Out::new();
    let full = |k: &str, e: &Emb| -> DataType {
        match k {
            "bool" => DataType::boolean(),
            "int" => DataType::integer(),
            "float" => DataType::float(),
            "text" => DataType::text(),
            "date" => DataType::date(),
            "datetime" => DataType::date_time(),
            "bytes" => DataType::bytes(),
            "opt_int" => DataType::optional(DataType::integer()),
            "opt_same" => DataType::Any, // replaced below
            "struct_x" => DataType::structured([("x", conc_type(&json!({"k": "int", "ivs": [[0, 4]]}), e))]),
            k => panic!("target {k}"),
        }
    };
    for e in embeddings() {
        for (ci, c) in cases.iter().enumerate() {
            let r = guarded(|| {
                let a = conc_type(&c["a"], &e);
                let to = c["to"].as_str().unwrap();
                let target = if to == "opt_same" { DataType::optional(a.maximal_superset().unwrap_or(DataType::Any)) } else { full(to, &e) };
                let conv = guarded(|| a.into_data_type(&target));
                let (co, a2) = match &conv {
                    Ok(Ok(t)) => ("ok", Some(t.clone())),
                    Ok(Err(_)) => ("err", None),
                    Err(_) => ("panic", None),
                };
                let inj = guarded(|| a.inject_into(&target));
                let mut vals = vec![];
                let mut images: Vec<String> = vec![];
                for vj in points_of(&c["a"], n) {
                    let v = conc_value(&vj, &e);
                    // facts about the source value (what makes a conversion lossy)
                    let (integral, is01, midnight) = match &v {
                        Value::Float(f) => (f.fract() == 0.0 && f.abs() < 9.2e18, **f == 0.0 || **f == 1.0, true),
                        Value::Integer(i) => (true, **i == 0 || **i == 1, true),
                        Value::DateTime(d) => (true, true, d.time() == chrono::NaiveTime::from_hms_opt(0, 0, 0).unwrap()),
                        _ => (true, true, true),
                    };
                    let mut why = String::new();
                    let w = match &inj {
                        Ok(Ok(i)) => match guarded(|| i.value(&v)) {
                            Ok(Ok(w)) => Ok(w),
                            Ok(Err(x)) => {
                                why = x.to_string();
                                Err("err")
                            }
                            Err(p) => {
                                why = p;
                                Err("panic")
                            }
                        },
                        Ok(Err(x)) => {
                            why = x.to_string();
                            Err("err")
                        }
                        Err(p) => {
                            why = p.clone();
                            Err("panic")
                        }
                    };
                    let mut rec = json!({"v": vj, "integral": integral, "is01": is01, "midnight": midnight});
                    match w {
                        Ok(w) => {
                            let key = format!("{:?}", w);
                            let id = match images.iter().position(|k| k == &key) {
                                Some(i) => i,
                                None => {
                                    images.push(key);
                                    images.len() - 1
                                }
                            };
                            rec["out"] = json!("ok");
                            rec["image_id"] = json!(id);
                            rec["in_converted"] = json!(a2.as_ref().map(|t| t.contains(&w)).unwrap_or(false));
                            // back
                            // the reverse conversion exists when the converted type converts back into the variant of the source
                            let back = guarded(|| {
                                a2.as_ref()
                                    .filter(|t| matches!(guarded(|| t.into_data_type(&a)), Ok(Ok(_))))
                                    .and_then(|t| t.inject_into(&a).ok())
                                    .map(|bi| bi.value(&w))
                            });
                            rec["back"] = json!(match back {
                                Ok(Some(Ok(b))) => {
                                    if b == v {
                                        "same"
                                    } else {
                                        "different"
                                    }
                                }
                                Ok(Some(Err(_))) => "err",
                                Ok(None) => "none",
                                Err(_) => "panic",
                            });
                        }
                        Err(o) => {
                            rec["out"] = json!(o);
                            rec["why"] = json!(why.chars().take(200).collect::<String>());
                            rec["image_id"] = json!(-1);
                            rec["in_converted"] = json!(false);
                            rec["back"] = json!("none");
                        }
                    }
                    vals.push(rec);
                }
                json!({"case": ci, "emb": e.name, "a": c["a"], "to": to, "type_conv": co, "vals": vals})
            });
            out.put(&r.unwrap_or_else(|p| json!({"case": ci, "emb": e.name, "a": c["a"], "to": c["to"], "type_conv": "harness_panic", "msg": p, "vals": []})));
        }
    }
    out.flush();
    0
}
