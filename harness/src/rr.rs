//! Rewriting search: replay of the cases of spec/RewritingRules.tla into the real
//! set / eliminate / select / score / rewrite phases and the two public entry points.
use crate::util::*;
use qrlew::{
    builder::{Ready, With},
    data_type::DataType,
    differential_privacy::DpParameters,
    expr::Expr,
    hierarchy::Hierarchy,
    privacy_unit_tracking::{privacy_unit::PrivacyUnit, Strategy},
    relation::{Join, Map, Reduce, Relation, Schema, Set, Table, Values, Variant as _},
    rewriting::rewriting_rule::{
        Parameters, Property, RelationWithDpEvent, RelationWithRewritingRule, RelationWithRewritingRules, RewriteVisitor,
        Rewriter, RewritingRule, RewritingRulesEliminator, RewritingRulesSelector, RewritingRulesSetter, Score,
    },
    synthetic_data::SyntheticData,
    visitor::Acceptor,
};
use serde_json::{json, Value as J};
use std::{cell::RefCell, sync::Arc};

const PROTECTED_NAME: &str = "protected_tbl";

pub fn base_relations() -> Hierarchy<Arc<Relation>> {
    let schema = |_: ()| {
        Schema::empty()
            .with(("id", DataType::integer_interval(0, 10)))
            .with(("x", DataType::float_interval(0., 1.)))
    };
    // the protected table's relation name differs from the key it is registered (and named in the privacy unit) under
    let protected: Relation = Relation::table().name(PROTECTED_NAME).path(["protected"]).schema(schema(())).size(10).build();
    let public: Relation = Relation::table().name("public").schema(schema(())).size(10).build();
    Hierarchy::from([(vec!["protected"], Arc::new(protected)), (vec!["public"], Arc::new(public))])
}

fn first_last(r: &Relation) -> (String, String) {
    let fs = r.schema().fields();
    (fs[0].name().to_string(), fs[fs.len() - 1].name().to_string())
}

/// The real relation of one abstract node kind over already built inputs (columns are taken by position)
fn mk(kind: &str, kids: Vec<Arc<Relation>>, relations: &Hierarchy<Arc<Relation>>) -> Relation {
    match kind {
        "TableProt" => relations[["protected"]].as_ref().clone(),
        "TablePub" => relations[["public"]].as_ref().clone(),
        "Values" => Relation::values().name("vals").values([0.25, 0.5]).build(),
        "Map" => {
            let (c0, cl) = first_last(&kids[0]);
            Relation::map().with(("id", Expr::col(c0))).with(("x", Expr::col(cl))).input(kids[0].clone()).build()
        }
        "ReduceDp" | "ReduceNoDp" => {
            // built directly (the builder would insert a Map below the Reduce)
            use qrlew::expr::{aggregate::Aggregate, AggregateColumn};
            let (c0, cl) = first_last(&kids[0]);
            let agg = if kind == "ReduceDp" { Aggregate::Sum } else { Aggregate::Max };
            // MAX of the grouping column itself would be supported: on a single-column input, do not group
            let group_by: Vec<qrlew::expr::Column> = if kind == "ReduceNoDp" && c0 == cl { vec![] } else { vec![c0.clone().into()] };
            let named = vec![
                ("id".to_string(), AggregateColumn::new(Aggregate::First, c0.clone().into())),
                ("x".to_string(), AggregateColumn::new(agg, cl.into())),
            ];
            let name = qrlew::namer::name_from_content("reduce", &(&named, &kids[0]));
            Relation::Reduce(Reduce::new(name, named, group_by, kids[0].clone()))
        }
        "Join" => {
            let (l0, _) = first_last(&kids[0]);
            let (r0, _) = first_last(&kids[1]);
            Relation::join()
                .inner(Expr::eq(Expr::qcol("_LEFT_", &l0), Expr::qcol("_RIGHT_", &r0)))
                .left(kids[0].clone())
                .right(kids[1].clone())
                .build()
        }
        "Set" => Relation::set().union().left(kids[0].clone()).right(kids[1].clone()).build(),
        _ => panic!("kind {kind}"),
    }
}

fn build_tree(tree: &J, relations: &Hierarchy<Arc<Relation>>) -> Relation {
    let nodes = tree.as_array().unwrap();
    let mut built: Vec<Arc<Relation>> = vec![];
    for n in nodes {
        let kids: Vec<Arc<Relation>> = n["kids"].as_array().unwrap().iter().map(|k| built[k.as_u64().unwrap() as usize - 1].clone()).collect();
        built.push(Arc::new(mk(n["kind"].as_str().unwrap(), kids, relations)));
    }
    built.last().unwrap().as_ref().clone()
}

fn prop(p: &Property) -> &'static str {
    match p {
        Property::Private => "Priv",
        Property::SyntheticData => "SD",
        Property::PrivacyUnitPreserving => "PUP",
        Property::DifferentiallyPrivate => "DP",
        Property::Published => "Pubd",
        Property::Public => "Pub",
    }
}

fn rule_json(r: &RewritingRule) -> J {
    json!({"ins": r.inputs().iter().map(prop).collect::<Vec<_>>(), "out": prop(r.output())})
}

fn real_kind(r: &Relation, pu: &PrivacyUnit, relations: &Hierarchy<Arc<Relation>>) -> &'static str {
    match r {
        Relation::Table(t) => {
            if pu.iter().any(|(name, _)| relations.get(&[name.to_string()]).map(|x| x.name() == t.name()).unwrap_or(false)) {
                "TableProt"
            } else {
                "TablePub"
            }
        }
        Relation::Map(_) => "Map",
        Relation::Reduce(_) => "Reduce",
        Relation::Join(_) => "Join",
        Relation::Set(_) => "Set",
        Relation::Values(_) => "Values",
    }
}

/// Post-order walk (children first, left before right), one entry per occurrence
fn rules_postorder(r: &RelationWithRewritingRules, out: &mut Vec<J>) {
    for i in r.inputs() {
        rules_postorder(i, out);
    }
    out.push(J::Array(r.attributes().iter().map(rule_json).collect()));
}

fn deriv_json(d: &RelationWithRewritingRule) -> J {
    json!({"rule": rule_json(d.attributes()), "kids": d.inputs().iter().map(|k| deriv_json(k)).collect::<Vec<_>>()})
}

/// A RewriteVisitor delegating to the real Rewriter and recording the relations built by the
/// differentially-private arm (the *gates*)
struct Logging<'a> {
    inner: Rewriter<'a>,
    gates: RefCell<Vec<Relation>>,
    steps: RefCell<Vec<J>>,
}

impl<'a> Logging<'a> {
    fn new(relations: &'a Hierarchy<Arc<Relation>>) -> Self {
        Logging { inner: Rewriter::new(relations), gates: RefCell::new(vec![]), steps: RefCell::new(vec![]) }
    }
    fn log(&self, kind: &str, rule: &RewritingRule, out: &RelationWithDpEvent) {
        self.steps.borrow_mut().push(json!({"kind": kind, "rule": rule_json(rule), "event": format!("{}", out.dp_event())}));
    }
}

impl<'a, 'b> RewriteVisitor<'a> for &'b Logging<'a> {
    fn table(&self, table: &'a Table, rule: &'a RewritingRule) -> RelationWithDpEvent {
        let o = self.inner.table(table, rule);
        self.log("Table", rule, &o);
        o
    }
    fn map(&self, map: &'a Map, rule: &'a RewritingRule, i: RelationWithDpEvent) -> RelationWithDpEvent {
        let o = self.inner.map(map, rule, i);
        self.log("Map", rule, &o);
        o
    }
    fn reduce(&self, reduce: &'a Reduce, rule: &'a RewritingRule, i: RelationWithDpEvent) -> RelationWithDpEvent {
        let o = self.inner.reduce(reduce, rule, i);
        if rule.output() == &Property::DifferentiallyPrivate && matches!(rule.parameters(), Parameters::DifferentialPrivacy(_)) {
            self.gates.borrow_mut().push(o.relation().clone());
        }
        self.log("Reduce", rule, &o);
        o
    }
    fn join(&self, join: &'a Join, rule: &'a RewritingRule, l: RelationWithDpEvent, r: RelationWithDpEvent) -> RelationWithDpEvent {
        let o = self.inner.join(join, rule, l, r);
        self.log("Join", rule, &o);
        o
    }
    fn set(&self, set: &'a Set, rule: &'a RewritingRule, l: RelationWithDpEvent, r: RelationWithDpEvent) -> RelationWithDpEvent {
        let o = self.inner.set(set, rule, l, r);
        self.log("Set", rule, &o);
        o
    }
    fn values(&self, values: &'a Values, rule: &'a RewritingRule) -> RelationWithDpEvent {
        let o = self.inner.values(values, rule);
        self.log("Values", rule, &o);
        o
    }
}

/// Does the relation contain a noise source (a call to the random function)?
fn has_noise(r: &Relation) -> bool {
    fn expr_random(e: &Expr) -> bool {
        match e {
            Expr::Function(f) => matches!(f.function(), qrlew::expr::function::Function::Random(_)) || f.arguments().iter().any(expr_random),
            Expr::Aggregate(a) => expr_random(a.argument()),
            Expr::Struct(_) => false,
            _ => false,
        }
    }
    let here = match r {
        Relation::Map(m) => m.projection().iter().any(expr_random) || m.filter().as_ref().map(expr_random).unwrap_or(false),
        _ => false,
    };
    here || r.inputs().iter().any(|i| has_noise(i))
}

/// Exposure of protected rows at the root of a rewritten relation (see spec/RewritingRules.tla):
/// protected tables reached without crossing a gate, synthetic tables, gates
pub fn exposure(root: &Relation, gates: &[Relation], protected: &[&str]) -> &'static str {
    fn walk(r: &Relation, gates: &[Relation], protected: &[&str], acc: &mut (bool, bool, bool, bool)) {
        if gates.iter().any(|g| g == r) {
            // a gate hides what is below it, provided it really draws noise
            if has_noise(r) {
                let mut below = (false, false, false, false);
                for i in r.inputs() {
                    walk(i, &[], protected, &mut below);
                }
                if below.0 {
                    acc.2 = true;
                }
                if below.1 {
                    acc.1 = true;
                }
                return;
            }
            acc.3 = true; // a "gate" without noise
        }
        match r {
            Relation::Table(t) => {
                if t.name().starts_with("_SYNTHETIC_") {
                    acc.1 = true
                } else if protected.iter().any(|p| t.name() == *p) {
                    acc.0 = true
                }
            }
            _ => {
                for i in r.inputs() {
                    walk(i, gates, protected, acc)
                }
            }
        }
    }
    let mut acc = (false, false, false, false);
    walk(root, gates, protected, &mut acc);
    let has_pu = root.schema().iter().any(|f| f.name() == "_PRIVACY_UNIT_");
    if acc.0 {
        if has_pu {
            "Tracked"
        } else {
            "Raw"
        }
    } else if acc.2 {
        "Noised"
    } else if acc.1 {
        "Synth"
    } else {
        "Clean"
    }
}

/// Exposure of the relation an entry point returned, measured on the relation alone: going down from the root, a node
/// that itself draws noise (a Map whose projection or filter calls the random function) hides what is below it.  (The
/// sampling steps deep inside a DP pipeline also draw random numbers: a path that would cross only those is taken as
/// hidden too -- the measure can miss an exposure, it cannot invent one.)
pub fn result_exposure(root: &Relation, protected: &[&str]) -> &'static str {
    fn noise_here(r: &Relation) -> bool {
        has_noise(r) && (r.inputs().is_empty() || {
            // the node itself: compare with a copy of the test restricted to this node
            match r {
                Relation::Map(_) => {
                    let below = r.inputs().iter().any(|i| has_noise(i));
                    // `has_noise` is true here or below; it is here when the node's own expressions call random()
                    !below || map_calls_random(r)
                }
                _ => false,
            }
        })
    }
    fn collect(r: &Relation, out: &mut Vec<Relation>) {
        if noise_here(r) {
            out.push(r.clone());
            return;
        }
        for i in r.inputs() {
            collect(i, out);
        }
    }
    let mut gates = vec![];
    collect(root, &mut gates);
    exposure(root, &gates, protected)
}

fn map_calls_random(r: &Relation) -> bool {
    fn expr_random(e: &Expr) -> bool {
        match e {
            Expr::Function(f) => matches!(f.function(), qrlew::expr::function::Function::Random(_)) || f.arguments().iter().any(expr_random),
            Expr::Aggregate(a) => expr_random(a.argument()),
            _ => false,
        }
    }
    match r {
        Relation::Map(m) => m.projection().iter().any(expr_random) || m.filter().as_ref().map(expr_random).unwrap_or(false),
        _ => false,
    }
}

/// Rendering with every generated name replaced by its rank of first appearance
pub fn normalised_sql(r: &Relation) -> String {
    let sql = crate::sqlx::render(r);
    let mut names: Vec<String> = vec![];
    let mut out = String::new();
    let bytes: Vec<char> = sql.chars().collect();
    let mut i = 0;
    while i < bytes.len() {
        if bytes[i] == '"' {
            let mut j = i + 1;
            while j < bytes.len() && bytes[j] != '"' {
                j += 1;
            }
            let id: String = bytes[i + 1..j].iter().collect();
            let generated = {
                let parts: Vec<&str> = id.rsplitn(2, '_').collect();
                parts.len() == 2
                    && ["map", "reduce", "join", "set", "field", "table", "relation"].iter().any(|p| id.starts_with(p))
                    && id.len() >= 5
            };
            if generated {
                let k = match names.iter().position(|n| n == &id) {
                    Some(k) => k,
                    None => {
                        names.push(id.clone());
                        names.len() - 1
                    }
                };
                out.push_str(&format!("\"#{}\"", k));
            } else {
                out.push('"');
                out.push_str(&id);
                out.push('"');
            }
            i = j + 1;
        } else {
            out.push(bytes[i]);
            i += 1;
        }
    }
    out
}

fn run_case(case: &J) -> J {
    let relations = base_relations();
    let sd = case["sd"].as_bool().unwrap();
    let strategy = if case["strategy"] == "Hard" { Strategy::Hard } else { Strategy::Soft };
    let entry = case["entry"].as_str().unwrap();
    let pu = PrivacyUnit::from(vec![("protected", vec![], "id")]);
    let dp = DpParameters::from_epsilon_delta(1.0, 1e-3);
    let synthetic = sd.then(|| {
        SyntheticData::new(Hierarchy::from([
            (vec!["protected"], qrlew::expr::Identifier::from("protected_sd")),
            (vec!["public"], qrlew::expr::Identifier::from("public_sd")),
        ]))
    });
    let relation = build_tree(&case["tree"], &relations);
    let mut obs = json!({"tree": case["tree"], "sd": sd, "strategy": case["strategy"], "entry": entry, "model": case});
    // the phases, through the public API
    let phases = guarded(|| {
        let with_rules = relation.set_rewriting_rules(RewritingRulesSetter::new(&relations, synthetic.clone(), pu.clone(), dp.clone(), strategy));
        let mut set_rules = vec![];
        rules_postorder(&with_rules, &mut set_rules);
        let eliminated = with_rules.map_rewriting_rules(RewritingRulesEliminator);
        let mut kept = vec![];
        rules_postorder(&eliminated, &mut kept);
        let selected = eliminated.select_rewriting_rules(RewritingRulesSelector);
        let acceptable: &[&str] = if entry == "pup" { &["Pub", "PUP"] } else { &["Pub", "Pubd", "DP", "SD"] };
        let mut derivs = vec![];
        qrlew::namer::reset();
        for d in &selected {
            let score = d.accept(Score);
            let acc = acceptable.contains(&prop(d.attributes().output()));
            let mut dj = json!({"d": deriv_json(d), "score": score as i64, "accepted": acc});
            if acc {
                // same order of rewritings as the entry point performs
                let logging = Logging::new(&relations);
                match guarded(|| d.rewrite(&logging)) {
                    Ok(rw) => {
                        dj["sql"] = json!(normalised_sql(rw.relation()));
                        dj["event"] = json!(format!("{}", rw.dp_event()));
                        dj["exposure"] = json!(exposure(rw.relation(), &logging.gates.borrow(), &[PROTECTED_NAME]));
                        dj["gates"] = json!(logging.gates.borrow().len());
                        dj["steps"] = J::Array(logging.steps.borrow().clone());
                    }
                    Err(p) => {
                        dj["rewrite_panic"] = json!(p);
                    }
                }
            }
            derivs.push(dj);
        }
        (set_rules, kept, derivs)
    });
    match phases {
        Ok((set_rules, kept, derivs)) => {
            obs["set_rules"] = J::Array(set_rules);
            obs["kept_rules"] = J::Array(kept);
            obs["derivs"] = J::Array(derivs);
        }
        Err(p) => {
            obs["phases_panic"] = json!(p);
        }
    }
    // real kinds, post-order
    let mut kinds = vec![];
    fn kinds_postorder(r: &Relation, pu: &PrivacyUnit, relations: &Hierarchy<Arc<Relation>>, out: &mut Vec<J>) {
        for i in r.inputs() {
            kinds_postorder(i, pu, relations, out);
        }
        out.push(json!(real_kind(r, pu, relations)));
    }
    kinds_postorder(&relation, &pu, &relations, &mut kinds);
    obs["kinds"] = J::Array(kinds);
    // the real tree, post-order with one entry per occurrence: [{kind, kids}]
    fn tree_postorder(r: &Relation, pu: &PrivacyUnit, relations: &Hierarchy<Arc<Relation>>, out: &mut Vec<J>) -> usize {
        let kids: Vec<usize> = r.inputs().iter().map(|i| tree_postorder(i, pu, relations, out)).collect();
        let kind = match (real_kind(r, pu, relations), r) {
            ("Reduce", Relation::Reduce(x)) => {
                // DP-able as the rule table decides it
                let has_dp = x.aggregate().iter().all(|a| {
                    use qrlew::expr::aggregate::Aggregate::*;
                    match a.aggregate() {
                        Mean | MeanDistinct | Count | CountDistinct | Sum | SumDistinct | Std | StdDistinct | Var | VarDistinct => true,
                        First | Last | Min | Max | Median | Quantile(_) | Quantiles(_) => x.group_by().contains(a.column()),
                        _ => false,
                    }
                });
                if has_dp { "ReduceDp" } else { "ReduceNoDp" }
            }
            (k, _) => k,
        };
        out.push(json!({"kind": kind, "kids": kids}));
        out.len()
    }
    let mut real_tree = vec![];
    tree_postorder(&relation, &pu, &relations, &mut real_tree);
    obs["real_tree"] = J::Array(real_tree);
    // the real entry point
    qrlew::namer::reset();
    let real = guarded(|| {
        if entry == "pup" {
            relation.rewrite_as_privacy_unit_preserving(&relations, synthetic.clone(), pu.clone(), dp.clone(), Some(strategy))
        } else {
            relation.rewrite_with_differential_privacy(&relations, synthetic.clone(), pu.clone(), dp.clone())
        }
    });
    match real {
        Ok(Ok(rw)) => {
            obs["outcome"] = json!("ok");
            obs["sql"] = json!(normalised_sql(rw.relation()));
            obs["event"] = json!(format!("{}", rw.dp_event()));
            obs["root_has_pu"] = json!(rw.relation().schema().iter().any(|f| f.name() == "_PRIVACY_UNIT_"));
            obs["result_exposure"] = json!(guarded(|| result_exposure(rw.relation(), &[PROTECTED_NAME])).unwrap_or("Raw"));
        }
        Ok(Err(e)) => {
            let msg = format!("{e}");
            obs["outcome"] = json!(if msg.to_lowercase().contains("unreachable") { "unreachable" } else { "error" });
            obs["error"] = json!(msg);
        }
        Err(p) => {
            obs["outcome"] = json!("panic");
            obs["error"] = json!(p);
        }
    }
    obs
}

pub fn replay(_args: &[String]) -> i32 {
    let cases = read_cases();
    let mut out = Out::new();
    for c in &cases {
        let o = match guarded(|| run_case(c)) {
            Ok(o) => o,
            Err(p) => json!({"tree": c["tree"], "harness_panic": p}),
        };
        out.put(&o);
    }
    out.flush();
    0
}
