//! Intervals: replay of TLC edges into the real `Intervals<B>` and recording of long real histories.
use crate::util::*;
use chrono::{Duration, NaiveDate, NaiveDateTime, NaiveTime};
use qrlew::data_type::intervals::{Bound, Intervals};
use serde_json::{json, Value as J};
use std::collections::BTreeMap;

/// Order embeddings of the abstract universe 0..N-1 (N <= 8) into each bound type
fn emb_i64_small() -> Vec<i64> {
    vec![-3, -2, -1, 0, 1, 2, 3, 4]
}
fn emb_i64_extreme() -> Vec<i64> {
    vec![i64::MIN, i64::MIN + 1, -1, 0, 1, (1 << 53) + 1, i64::MAX - 1, i64::MAX]
}
fn emb_f64() -> Vec<f64> {
    vec![-f64::MAX, -1.5, -5e-324, 0.0, 5e-324, 0.1 + 0.2, 1e300, f64::MAX]
}
fn emb_f64_tight() -> Vec<f64> {
    let one = 1.0f64;
    vec![
        f64::from_bits(one.to_bits() - 2),
        f64::from_bits(one.to_bits() - 1),
        one,
        f64::from_bits(one.to_bits() + 1),
        f64::from_bits(one.to_bits() + 2),
        9007199254740992.0,
        9007199254740994.0,
        1e308,
    ]
}
fn emb_string() -> Vec<String> {
    ["\u{0}", "", " ", "'", "a", "a\"b", "é", "\u{10FFFF}"]
        .iter()
        .map(|s| s.to_string())
        .collect::<Vec<_>>()
        .into_iter()
        .collect::<std::collections::BTreeSet<_>>()
        .into_iter()
        .collect()
}
fn emb_date() -> Vec<NaiveDate> {
    vec![
        NaiveDate::MIN,
        NaiveDate::from_ymd_opt(1, 1, 1).unwrap(),
        NaiveDate::from_ymd_opt(1970, 1, 1).unwrap(),
        NaiveDate::from_ymd_opt(2000, 2, 28).unwrap(),
        NaiveDate::from_ymd_opt(2000, 2, 29).unwrap(),
        NaiveDate::from_ymd_opt(2000, 3, 1).unwrap(),
        NaiveDate::from_ymd_opt(9999, 12, 31).unwrap(),
        NaiveDate::MAX,
    ]
}
fn emb_datetime() -> Vec<NaiveDateTime> {
    let d = emb_date();
    vec![
        NaiveDateTime::MIN,
        d[2].and_hms_opt(0, 0, 0).unwrap(),
        d[2].and_hms_nano_opt(0, 0, 0, 1).unwrap(),
        d[2].and_hms_opt(12, 0, 0).unwrap(),
        d[2].and_hms_opt(23, 59, 59).unwrap(),
        d[3].and_hms_opt(0, 0, 0).unwrap(),
        d[6].and_hms_opt(23, 59, 59).unwrap(),
        NaiveDateTime::MAX,
    ]
}
fn emb_time() -> Vec<NaiveTime> {
    vec![
        NaiveTime::from_hms_opt(0, 0, 0).unwrap(),
        NaiveTime::from_hms_nano_opt(0, 0, 0, 1).unwrap(),
        NaiveTime::from_hms_opt(0, 0, 1).unwrap(),
        NaiveTime::from_hms_opt(11, 59, 59).unwrap(),
        NaiveTime::from_hms_opt(12, 0, 0).unwrap(),
        NaiveTime::from_hms_opt(23, 59, 58).unwrap(),
        NaiveTime::from_hms_opt(23, 59, 59).unwrap(),
        NaiveTime::from_num_seconds_from_midnight_opt(86399, 1_999_999_999).unwrap(),
    ]
}
fn emb_duration() -> Vec<Duration> {
    vec![
        Duration::min_value(),
        Duration::seconds(-1),
        Duration::nanoseconds(-1),
        Duration::zero(),
        Duration::nanoseconds(1),
        Duration::seconds(1),
        Duration::days(36500),
        Duration::max_value(),
    ]
}

/// Project a real bound to the abstract universe: exact rank if it is one of the embedded points
fn rank<B: Bound>(emb: &[B], b: &B) -> Option<usize> {
    emb.iter().position(|e| e == b)
}

/// Projection of a real interval list to the universe (the same function is used by both bindings).
/// A bound that is not an embedded point is projected to the nearest point *inside* the interval
/// and the record is flagged inexact.
fn project<B: Bound>(emb: &[B], s: &Intervals<B>, inexact: &mut bool) -> J {
    let mut out = vec![];
    for [lo, hi] in s.iter() {
        let l = match rank(emb, lo) {
            Some(i) => Some(i),
            None => {
                *inexact = true;
                emb.iter().position(|e| e >= lo)
            }
        };
        let h = match rank(emb, hi) {
            Some(i) => Some(i),
            None => {
                *inexact = true;
                emb.iter().rposition(|e| e <= hi)
            }
        };
        if let (Some(l), Some(h)) = (l, h) {
            if l <= h {
                out.push(json!([l, h]));
            }
        }
    }
    J::Array(out)
}

/// Well-formedness decided on the real bounds
fn wf_real<B: Bound>(s: &Intervals<B>) -> bool {
    s.iter().all(|[lo, hi]| lo <= hi) && s.windows(2).all(|w| w[0][1] < w[1][0])
}

fn concretise<B: Bound>(emb: &[B], j: &J) -> Vec<[B; 2]> {
    j.as_array()
        .unwrap()
        .iter()
        .map(|p| {
            [
                emb[p[0].as_u64().unwrap() as usize].clone(),
                emb[p[1].as_u64().unwrap() as usize].clone(),
            ]
        })
        .collect()
}

/// Build the real object for an abstract list (through the public constructor path)
fn build<B: Bound>(emb: &[B], j: &J) -> Intervals<B> {
    Intervals::from_intervals(concretise(emb, j))
}

/// One TLC edge replayed under one embedding; returns the abstract observation
fn replay_edge<B: Bound>(emb: &[B], n: usize, case: &J) -> J {
    let op = case["op"].as_str().unwrap();
    let r = guarded(|| {
        let mut inexact = false;
        let pre = build(emb, &case["pre"]);
        let pre_j = project(emb, &pre, &mut inexact);
        let mut obs = json!({"op": op, "pre": pre_j});
        let post = match op {
            "union_interval" | "intersection_interval" => {
                let lo = case["lo"].as_u64().unwrap() as usize;
                let hi = case["hi"].as_u64().unwrap() as usize;
                obs["lo"] = json!(lo);
                obs["hi"] = json!(hi);
                if op == "union_interval" {
                    pre.clone().union_interval(emb[lo].clone(), emb[hi].clone())
                } else {
                    pre.clone().intersection_interval(emb[lo].clone(), emb[hi].clone())
                }
            }
            "union" | "intersection" => {
                let other = build(emb, &case["other"]);
                obs["other"] = project(emb, &other, &mut inexact);
                let post = if op == "union" {
                    pre.clone().union(other.clone())
                } else {
                    pre.clone().intersection(other.clone())
                };
                // the query operations on the operands
                obs["sub_ab"] = json!(pre.is_subset_of(&other));
                obs["sub_ba"] = json!(other.is_subset_of(&pre));
                post
            }
            _ => panic!("unknown op {op}"),
        };
        obs["post"] = project(emb, &post, &mut inexact);
        obs["wf"] = json!(wf_real(&post) && wf_real(&pre));
        obs["len"] = json!(post.len());
        obs["has"] = J::Array((0..n).map(|v| json!(post.contains(&emb[v]))).collect());
        obs["own"] = json!((0..n).all(|v| Intervals::from_value(emb[v].clone()).contains(&emb[v])));
        obs["inexact"] = json!(inexact);
        obs
    });
    let mut obs = match r {
        Ok(o) => o,
        Err(msg) => json!({"op": "panic", "of": op, "msg": msg, "case": case}),
    };
    obs["model_post"] = case["post"].clone();
    obs
}

fn run_embedding<B: Bound>(
    name: &str,
    emb: Vec<B>,
    n: usize,
    cases: &[J],
    acc: &mut BTreeMap<String, (u64, Vec<String>)>,
) {
    assert!(emb.len() >= n, "embedding {name} too small");
    assert!(emb.windows(2).all(|w| w[0] < w[1]), "embedding {name} not increasing");
    for case in cases {
        let obs = replay_edge(&emb, n, case);
        let key = serde_json::to_string(&obs).unwrap();
        let e = acc.entry(key).or_insert((0, vec![]));
        e.0 += 1;
        if !e.1.iter().any(|t| t == name) {
            e.1.push(name.to_string());
        }
    }
}

/// stdin: TLC edges; stdout: distinct abstract observations with the embeddings that produced them
pub fn replay(args: &[String]) -> i32 {
    let n: usize = arg_value(args, "--n").map(|s| s.parse().unwrap()).unwrap_or(6);
    let cap: usize = arg_value(args, "--cap").map(|s| s.parse().unwrap()).unwrap_or(3);
    let only = arg_value(args, "--embedding");
    let cases = read_cases();
    qrlew::verif::set_intervals_capacity(Some(cap));
    let mut acc: BTreeMap<String, (u64, Vec<String>)> = BTreeMap::new();
    let want = |name: &str| only.as_deref().map(|o| o == name).unwrap_or(true);
    if want("i64_small") {
        run_embedding("i64_small", emb_i64_small(), n, &cases, &mut acc);
    }
    if want("i64_extreme") {
        run_embedding("i64_extreme", emb_i64_extreme(), n, &cases, &mut acc);
    }
    if want("f64") {
        run_embedding("f64", emb_f64(), n, &cases, &mut acc);
    }
    if want("f64_tight") {
        run_embedding("f64_tight", emb_f64_tight(), n, &cases, &mut acc);
    }
    if want("string") {
        run_embedding("string", emb_string(), n, &cases, &mut acc);
    }
    if want("date") {
        run_embedding("date", emb_date(), n, &cases, &mut acc);
    }
    if want("datetime") {
        run_embedding("datetime", emb_datetime(), n, &cases, &mut acc);
    }
    if want("time") {
        run_embedding("time", emb_time(), n, &cases, &mut acc);
    }
    if want("duration") {
        run_embedding("duration", emb_duration(), n, &cases, &mut acc);
    }
    if want("bool") && n <= 2 {
        run_embedding("bool", vec![false, true], n, &cases, &mut acc);
    }
    let mut out = Out::new();
    for (k, (count, tys)) in acc {
        let mut obs: J = serde_json::from_str(&k).unwrap();
        obs["count"] = json!(count);
        obs["tys"] = json!(tys);
        out.put(&obs);
    }
    out.flush();
    0
}

/// Long seeded histories on the real object at its real capacity (no override): a trace of
/// rank-encoded events, each continuing from the previous state.
pub fn record(args: &[String]) -> i32 {
    let seed: u64 = arg_value(args, "--seed").map(|s| s.parse().unwrap()).unwrap_or(0);
    let histories: usize = arg_value(args, "--histories").map(|s| s.parse().unwrap()).unwrap_or(4);
    let steps: usize = arg_value(args, "--steps").map(|s| s.parse().unwrap()).unwrap_or(400);
    let universe: usize = arg_value(args, "--universe").map(|s| s.parse().unwrap()).unwrap_or(640);
    qrlew::verif::set_intervals_capacity(None);
    let mut rng = Rng(seed ^ 0x1234_5678);
    let mut out = Out::new();
    for h in 0..histories {
        // alternate bound types: integers spread over the whole i64 range, floats, strings
        match h % 3 {
            0 => {
                let step = (u64::MAX / universe as u64) as i128;
                let emb: Vec<i64> = (0..universe)
                    .map(|k| (i64::MIN as i128 + step * k as i128) as i64)
                    .collect();
                record_one("i64", &emb, steps, &mut rng, &mut out);
            }
            1 => {
                let emb: Vec<f64> = (0..universe)
                    .map(|k| (k as f64 - universe as f64 / 2.0) * 1e300 / universe as f64)
                    .collect();
                record_one("f64", &emb, steps, &mut rng, &mut out);
            }
            _ => {
                let emb: Vec<String> = (0..universe).map(|k| format!("k{:05}'", k)).collect();
                record_one("string", &emb, steps, &mut rng, &mut out);
            }
        }
    }
    out.flush();
    0
}

fn record_one<B: Bound>(ty: &str, emb: &[B], steps: usize, rng: &mut Rng, out: &mut Out) {
    let n = emb.len();
    let mut cur: Intervals<B> = Intervals::empty();
    out.put(&json!({"op": "reset", "ty": ty, "n": n}));
    let mut inexact = false;
    // phase plan: grow with many small disjoint intervals (crossing the capacity), then
    // shrink back with intersections, then grow again
    for s in 0..steps {
        let phase = (s * 4 / steps) % 4;
        let pre = cur.clone();
        let choice = rng.below(10);
        let r = guarded(|| {
            let mut ev = json!({});
            let post;
            let small = |rng: &mut Rng| {
                let lo = rng.below(n as u64) as usize;
                let hi = (lo + rng.below(2) as usize).min(n - 1);
                (lo, hi)
            };
            let wide = |rng: &mut Rng| {
                let a = rng.below(n as u64) as usize;
                let b = rng.below(n as u64) as usize;
                (a.min(b), a.max(b))
            };
            let grow = phase == 0 || phase == 2;
            if grow && choice < 7 {
                let (lo, hi) = small(rng);
                ev = json!({"op": "union_interval", "lo": lo, "hi": hi});
                post = pre.clone().union_interval(emb[lo].clone(), emb[hi].clone());
            } else if grow && choice < 9 {
                // union with another multi-interval operand
                let k = 1 + rng.below(40) as usize;
                let mut o: Intervals<B> = Intervals::empty();
                for _ in 0..k {
                    let (lo, hi) = small(rng);
                    o = o.union_interval(emb[lo].clone(), emb[hi].clone());
                }
                ev = json!({"op": "union", "other": project(emb, &o, &mut false)});
                post = pre.clone().union(o);
            } else if choice < 5 {
                let (lo, hi) = wide(rng);
                ev = json!({"op": "intersection_interval", "lo": lo, "hi": hi});
                post = pre.clone().intersection_interval(emb[lo].clone(), emb[hi].clone());
            } else {
                let k = 1 + rng.below(60) as usize;
                let mut o: Intervals<B> = Intervals::empty();
                for _ in 0..k {
                    let (lo, hi) = wide(rng);
                    let hi = hi.min(lo + n / 8);
                    o = o.union_interval(emb[lo].clone(), emb[hi].clone());
                }
                ev = json!({"op": "intersection", "other": project(emb, &o, &mut false)});
                post = pre.clone().intersection(o);
            }
            (ev, post)
        });
        match r {
            Ok((mut ev, post)) => {
                ev["chain"] = json!(true);
                ev["pre"] = project(emb, &pre, &mut inexact);
                ev["post"] = project(emb, &post, &mut inexact);
                ev["wf"] = json!(wf_real(&post));
                ev["len"] = json!(post.len());
                // a few membership / inclusion queries on the new state
                let v = rng.below(n as u64) as usize;
                ev["v"] = json!(v);
                ev["has_v"] = json!(post.contains(&emb[v]));
                ev["sub_pre_post"] = json!(pre.is_subset_of(&post));
                ev["sub_post_pre"] = json!(post.is_subset_of(&pre));
                ev["inexact"] = json!(inexact);
                out.put(&ev);
                cur = post;
            }
            Err(msg) => {
                out.put(&json!({"op": "panic", "msg": msg}));
                cur = Intervals::empty();
                out.put(&json!({"op": "reset", "ty": ty, "n": n}));
            }
        }
    }
}
