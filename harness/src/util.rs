use serde_json::Value as J;
use std::io::{BufRead, Write};

/// Read ndjson from stdin
pub fn read_cases() -> Vec<J> {
    let stdin = std::io::stdin();
    stdin
        .lock()
        .lines()
        .filter_map(|l| l.ok())
        .filter(|l| !l.trim().is_empty())
        .map(|l| serde_json::from_str(&l).expect("bad json case"))
        .collect()
}

pub struct Out {
    w: std::io::BufWriter<std::io::Stdout>,
}

impl Out {
    pub fn new() -> Out {
        Out {
            w: std::io::BufWriter::new(std::io::stdout()),
        }
    }
    pub fn put(&mut self, j: &J) {
        serde_json::to_writer(&mut self.w, j).unwrap();
        self.w.write_all(b"\n").unwrap();
    }
    pub fn flush(&mut self) {
        self.w.flush().unwrap();
    }
}

pub fn arg_value(args: &[String], name: &str) -> Option<String> {
    args.iter()
        .position(|a| a == name)
        .and_then(|i| args.get(i + 1).cloned())
}

thread_local! {
    pub static LAST_PANIC_FILE: std::cell::RefCell<String> = std::cell::RefCell::new(String::new());
}

/// Run code under test; a panic becomes an `Err("<message> @<source file>")`
pub fn guarded<T, F: FnOnce() -> T>(f: F) -> Result<T, String> {
    std::panic::catch_unwind(std::panic::AssertUnwindSafe(f)).map_err(|e| {
        let msg = if let Some(s) = e.downcast_ref::<&str>() {
            s.to_string()
        } else if let Some(s) = e.downcast_ref::<String>() {
            s.clone()
        } else {
            "panic".to_string()
        };
        let file = LAST_PANIC_FILE.with(|f| f.borrow().clone());
        let file = file.rsplit("/src/").next().unwrap_or("").to_string();
        let short: String = msg.chars().take(200).collect();
        format!("{short} @{file}")
    })
}

/// Small deterministic generator (so that runs only depend on VERIF_SEED)
pub struct Rng(pub u64);
impl Rng {
    pub fn next(&mut self) -> u64 {
        // splitmix64
        self.0 = self.0.wrapping_add(0x9E3779B97F4A7C15);
        let mut z = self.0;
        z = (z ^ (z >> 30)).wrapping_mul(0xBF58476D1CE4E5B9);
        z = (z ^ (z >> 27)).wrapping_mul(0x94D049BB133111EB);
        z ^ (z >> 31)
    }
    pub fn below(&mut self, n: u64) -> u64 {
        if n == 0 {
            0
        } else {
            self.next() % n
        }
    }
}
