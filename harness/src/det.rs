//! C16: the same query compiled against the same tables gives the same relation, names and rendered text —
//! at any position of a history of compilations, from any thread.  Counter draws are recorded (hook).
use crate::sqlx::*;
use crate::util::*;
use qrlew::{builder::With, data_type::DataTyped, relation::{Relation, Variant as _}, sql::parse};
use serde_json::{json, Value as J};
use std::collections::hash_map::DefaultHasher;
use std::hash::{Hash, Hasher};
use std::sync::{Arc, Condvar, Mutex};

fn h<T: Hash>(t: &T) -> String {
    let mut s = DefaultHasher::new();
    t.hash(&mut s);
    format!("{:016x}", s.finish())
}

/// compile one query; the observable output of the job
fn job(sql: &str, relations: &qrlew::hierarchy::Hierarchy<Arc<Relation>>) -> J {
    match guarded(|| parse(sql).map(|q| Relation::try_from(q.with(relations)))) {
        Ok(Ok(Ok(r))) => {
            let rendered = guarded(|| render(&r)).unwrap_or_else(|p| format!("panic:{p}"));
            let rendered2 = guarded(|| render(&r)).unwrap_or_else(|p| format!("panic:{p}"));
            let names: Vec<String> = nodes(&r).iter().map(|n| format!("{}({})", n.name(), n.schema().iter().map(|f| f.name().to_string()).collect::<Vec<_>>().join(","))).collect();
            // the rendered SQL with every generated name replaced by its rank of appearance, and the column types alone
            let nsql = guarded(|| crate::rr::normalised_sql(&r)).unwrap_or_else(|p| format!("panic:{p}"));
            let types: Vec<String> = nodes(&r).iter().map(|n| n.schema().iter().map(|f| format!("{:?}", f.data_type())).collect::<Vec<_>>().join(",")).collect();
            json!({"outcome": "ok", "debug": h(&format!("{:?}", r)), "display": h(&format!("{}", r)), "rendered": h(&rendered), "render_twice_same": rendered == rendered2,
                   "names": h(&names), "root": r.name(), "nsql": h(&nsql), "types": h(&types)})
        }
        Ok(Ok(Err(e))) => json!({"outcome": "err", "debug": h(&format!("{e}")), "display": "", "rendered": "", "render_twice_same": true, "names": "", "root": "", "nsql": "", "types": ""}),
        Ok(Err(e)) => json!({"outcome": "err", "debug": h(&format!("{e}")), "display": "", "rendered": "", "render_twice_same": true, "names": "", "root": "", "nsql": "", "types": ""}),
        Err(p) => json!({"outcome": "panic", "debug": h(&p), "display": "", "rendered": "", "render_twice_same": true, "names": "", "root": "", "nsql": "", "types": ""}),
    }
}

/// A turnstile imposing an order on the counter draws of the threads: `order` lists thread tags; a thread
/// reaching a draw waits until it is its turn.  When the order is exhausted everybody runs free.
struct Turnstile {
    order: Mutex<Vec<u64>>,
    cv: Condvar,
}

pub fn run(args: &[String]) -> i32 {
    let case: J = read_cases().into_iter().next().expect("one case");
    let tables = &case["tables"];
    let queries: Vec<String> = case["queries"].as_array().unwrap().iter().map(|q| q.as_str().unwrap().to_string()).collect();
    let nthreads = case["threads"].as_u64().unwrap_or(3) as usize;
    let phase_only = arg_value(args, "--phase");
    let mut out = Out::new();
    let relations = relations_of(tables);
    qrlew::verif::set_thread_tag(0);
    qrlew::verif::install_sink(false);
    let mut marks: Vec<J> = vec![];
    // phase "seq": every query twice in a row, then the whole list again in reverse order (histories)
    let mut emit = |phase: &str, thread: u64, pos: usize, qi: usize, o: J, out: &mut Out| {
        let mut o = o;
        o["phase"] = json!(phase);
        o["thread"] = json!(thread);
        o["pos"] = json!(pos);
        o["q"] = json!(qi);
        out.put(&o);
    };
    if phase_only.as_deref().map(|p| p == "seq").unwrap_or(true) {
        let mut pos = 0;
        let mut order = 0u64;
        for (qi, q) in queries.iter().enumerate() {
            for _ in 0..2 {
                let before = qrlew::verif::take_events().len();
                let _ = before;
                qrlew::verif::install_sink(false);
                let o = job(q, &relations);
                let evs = qrlew::verif::take_events();
                for e in &evs {
                    if let Ok(mut j) = serde_json::from_str::<J>(e) {
                        j["phase"] = json!("seq");
                        j["order"] = json!(order);
                        order += 1;
                        out.put(&j);
                    }
                }
                marks.push(json!({"phase": "seq", "q": qi, "pos": pos, "draws": evs.iter().filter_map(|e| serde_json::from_str::<J>(e).ok()).filter(|e| e["ev"] == "count").map(|e| e["prefix"].clone()).collect::<Vec<_>>()}));
                emit("seq", 0, pos, qi, o, &mut out);
                pos += 1;
            }
        }
        for (qi, q) in queries.iter().enumerate().rev() {
            qrlew::verif::install_sink(false);
            let o = job(q, &relations);
            for e in qrlew::verif::take_events() {
                if let Ok(mut j) = serde_json::from_str::<J>(&e) {
                    j["phase"] = json!("seq");
                    j["order"] = json!(order);
                    order += 1;
                    out.put(&j);
                }
            }
            emit("seq", 0, pos, qi, o, &mut out);
            pos += 1;
        }
    }
    // phase "par": threads compile the list in different rotations, concurrently; draws are recorded
    if phase_only.as_deref().map(|p| p == "par").unwrap_or(true) {
        let schedule: Vec<u64> = case["schedule"].as_array().map(|a| a.iter().map(|x| x.as_u64().unwrap()).collect()).unwrap_or_default();
        let ts = Arc::new(Turnstile { order: Mutex::new(schedule.clone()), cv: Condvar::new() });
        let ts2 = ts.clone();
        qrlew::verif::install_sink(false);
        qrlew::verif::set_scheduler(Some(Arc::new(move |tag: u64, _key: &str| {
            let mut order = ts2.order.lock().unwrap();
            let deadline = std::time::Instant::now() + std::time::Duration::from_millis(500);
            while !order.is_empty() && order[0] != tag {
                let (g, to) = ts2.cv.wait_timeout(order, std::time::Duration::from_millis(50)).unwrap();
                order = g;
                if to.timed_out() && std::time::Instant::now() > deadline {
                    // the expected thread does not come: drop the rest of the imposed order
                    order.clear();
                }
            }
            if !order.is_empty() {
                order.remove(0);
            }
            ts2.cv.notify_all();
        })));
        let results: Arc<Mutex<Vec<J>>> = Arc::new(Mutex::new(vec![]));
        let mut handles = vec![];
        for t in 0..nthreads {
            let queries = queries.clone();
            let tables = tables.clone();
            let results = results.clone();
            handles.push(std::thread::spawn(move || {
                qrlew::verif::set_thread_tag(t as u64 + 1);
                // each thread builds its own table relations (same declarations)
                let relations = relations_of(&tables);
                let n = queries.len();
                for k in 0..n {
                    let qi = (k + t * 3) % n;
                    let mut o = job(&queries[qi], &relations);
                    o["phase"] = json!("par");
                    o["thread"] = json!(t as u64 + 1);
                    o["pos"] = json!(k);
                    o["q"] = json!(qi);
                    results.lock().unwrap().push(o);
                }
            }));
        }
        for hd in handles {
            let _ = hd.join();
        }
        qrlew::verif::set_scheduler(None);
        for o in results.lock().unwrap().iter() {
            out.put(o);
        }
        let evs = qrlew::verif::take_events();
        for e in evs {
            if let Ok(mut j) = serde_json::from_str::<J>(&e) {
                j["phase"] = json!("par");
                out.put(&j);
            }
        }
    }
    for m in marks {
        out.put(&m);
    }
    out.flush();
    0
}

/// Diagnostic: compile the first query of the case `n` times in this process (interleaved with the other queries of the
/// case) and print where the Debug renderings differ.
pub fn debug_diff(_args: &[String]) -> i32 {
    let case: J = read_cases().into_iter().next().expect("one case");
    let relations = relations_of(&case["tables"]);
    let queries: Vec<String> = case["queries"].as_array().unwrap().iter().map(|q| q.as_str().unwrap().to_string()).collect();
    let n = case["n"].as_u64().unwrap_or(1000) as usize;
    let mut seen: Vec<(String, usize)> = vec![];
    for i in 0..n {
        for (qi, q) in queries.iter().enumerate() {
            let r = guarded(|| parse(q).map(|p| Relation::try_from(p.with(&relations))));
            if qi != 0 {
                continue;
            }
            if let Ok(Ok(Ok(r))) = r {
                let d = format!("{:?}", r);
                match seen.iter_mut().find(|(s, _)| s == &d) {
                    Some((_, c)) => *c += 1,
                    None => {
                        println!("new rendering at iteration {i} (len {})", d.len());
                        seen.push((d, 1));
                    }
                }
            }
        }
    }
    println!("distinct renderings: {}", seen.len());
    if seen.len() >= 2 {
        let (a, b) = (&seen[0].0, &seen[1].0);
        let k = a.bytes().zip(b.bytes()).position(|(x, y)| x != y).unwrap_or(0);
        let lo = k.saturating_sub(300);
        println!("counts: {:?}", seen.iter().map(|(_, c)| *c).collect::<Vec<_>>());
        println!("A: ...{}", &a[lo..(k + 300).min(a.len())]);
        println!("B: ...{}", &b[lo..(k + 300).min(b.len())]);
    }
    0
}

/// Diagnostic: the image of CASE WHEN x > 0 THEN x ELSE 0 END over x in int{0}, many times.
pub fn debug_case(_args: &[String]) -> i32 {
    use qrlew::{data_type::{function::Function as _, DataType}, expr::Expr};
    let st = DataType::structured([("x", DataType::integer_value(0))]);
    let mut seen: std::collections::BTreeMap<String, usize> = Default::default();
    for _ in 0..20000 {
        let cond = Expr::gt(Expr::col("x"), Expr::val(0.0));
        let e = Expr::case(cond.clone(), Expr::col("x"), Expr::val(0.0));
        let t = e.super_image(&st).map(|t| t.to_string()).unwrap_or_else(|e| e.to_string());
        let c = cond.super_image(&st).map(|t| t.to_string()).unwrap_or_else(|e| e.to_string());
        let direct = qrlew::data_type::function::case()
            .super_image(&DataType::structured_from_data_types([DataType::boolean_value(false), DataType::integer_value(0), DataType::float_value(0.0)]))
            .map(|t| t.to_string())
            .unwrap_or_else(|e| e.to_string());
        let opt = qrlew::data_type::function::Optional::new(qrlew::data_type::function::case())
            .super_image(&DataType::structured_from_data_types([DataType::boolean_value(false), DataType::integer_value(0), DataType::float_value(0.0)]))
            .map(|t| t.to_string())
            .unwrap_or_else(|e| e.to_string());
        *seen.entry(format!("case={t} cond={c} direct={direct} opt={opt}")).or_default() += 1;
    }
    println!("{:?}", seen);
    0
}
