use qrlew::data_type::{DataType, Variant as _, value::Value, DataTyped};
fn main() {
    let a = DataType::integer_values([i64::MIN, 0]);
    let b = DataType::integer_values([i64::MIN]);
    let u = a.super_union(&b).unwrap();
    let v = Value::some(Value::integer(i64::MIN));
    println!("a={a} b={b} u={u} v={v} vt={}", v.data_type());
    println!("a.contains(v)={} u.contains(v)={} a==u {}", a.contains(&v), u.contains(&v), a == u);
    let a2 = DataType::integer_values([0, 2]);
    let v2 = Value::some(Value::integer(0));
    println!("small: {}", a2.contains(&v2));
    println!("into: {:?}", a.clone().into_data_type(&v.data_type()).map(|t| t.to_string()));
}
