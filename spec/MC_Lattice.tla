------------------------------ MODULE MC_Lattice ------------------------------
(* The case space of the lattice laws (C11): every ordered pair of types of DataTypes.tla.
   One VALUES line (the value universe, in the order the observations use) and one REPLAY line per pair. *)
EXTENDS DataTypes, Json, SequencesExt
VARIABLES a, b
ASSUME PrintT(<<"VALUES", ToJson(SetToSeq(Values))>>)
Init == a \in Types /\ b \in Types
Next == FALSE /\ UNCHANGED <<a, b>>
Spec == Init /\ [][Next]_<<a, b>>
Emit == PrintT(<<"REPLAY", ToJson([a |-> a, b |-> b])>>)
=============================================================================
