------------------------------ MODULE DataTypes ------------------------------
(***************************************************************************)
(* A finite universe of qrlew data types and values, and their denotation. *)
(*                                                                         *)
(* Ordered kinds ("bool", "int", "float", "text", "date", "datetime") have *)
(* a small totally ordered set of points 0..NPts(k)-1; a primitive type of *)
(* such a kind is an interval set over the points (as in Intervals.tla).   *)
(* Other atomic types: null (empty), unit, bytes, id, any.  Composite      *)
(* types: optional, struct and union with one or two fields, list with a   *)
(* size range.  The driver concretises the points of each kind by an       *)
(* order embedding (booleans false/true; integers 0,1,2,7; floats          *)
(* 0.0,0.5,1.0,2.0; texts "0","1","a","b"; dates; datetimes at midnight /  *)
(* noon) so that the cross-variant conversions of the library have         *)
(* something to say.                                                       *)
(***************************************************************************)
EXTENDS Integers, Sequences, FiniteSets, TLC

CONSTANTS N,        \* points per ordered kind (booleans: 2)
          Rich      \* larger pools of composite types
OrdKinds == {"bool", "int", "float", "text", "date", "datetime"}
NPts(k) == IF k = "bool" THEN 2 ELSE N

(* ---- interval sets over 0..n-1 (sorted, disjoint, possibly adjacent) ------------- *)
RECURSIVE IvFrom(_, _, _)
IvFrom(from, n, k) ==
    IF k = 0 \/ from > n - 1 THEN { << >> }
    ELSE { << >> } \cup
         UNION { { << <<lo, hi>> >> \o rest : rest \in IvFrom(hi + 2, n, k - 1) }
                 : <<lo, hi>> \in { p \in (from..(n-1)) \X (from..(n-1)) : p[1] <= p[2] } }
IvSets(n) == IvFrom(0, n, 2)
Pts(s) == UNION { s[i][1]..s[i][2] : i \in 1..Len(s) }

(* ---- types ------------------------------------------------------------------------ *)
Prim(k, s) == [k |-> k, ivs |-> s]
Primitive == UNION { { Prim(k, s) : s \in IvSets(NPts(k)) } : k \in OrdKinds }
Special == { [k |-> "null"], [k |-> "unit"], [k |-> "bytes"], [k |-> "id"], [k |-> "any"] }
Atomic == Primitive \cup Special
\* a smaller pool for the components of composite types
Small == { Prim(k, s) : k \in {"bool", "int", "float", "text"}, s \in { << <<0, 0>> >>, << <<0, 1>> >>, << <<1, 1>> >> } }
         \cup (IF Rich THEN { Prim("int", << <<0, N - 1>> >>), Prim("float", << <<0, N - 1>> >>), [k |-> "unit"] } ELSE {})
Opt(t) == [k |-> "opt", t |-> t]
Struct1(t) == [k |-> "struct", fields |-> << [n |-> "x", t |-> t] >>]
Struct2(t, u) == [k |-> "struct", fields |-> << [n |-> "x", t |-> t], [n |-> "y", t |-> u] >>]
Union2(t, u) == [k |-> "union", fields |-> << [n |-> "x", t |-> t], [n |-> "y", t |-> u] >>]
ListOf(t, lo, hi) == [k |-> "list", t |-> t, lo |-> lo, hi |-> hi]
Composite == { Opt(t) : t \in Small }
             \cup { Struct1(t) : t \in Small }
             \cup (IF Rich THEN { Struct2(t, u) : t \in Small, u \in Small } \cup { Union2(t, u) : t \in Small, u \in Small } ELSE
                   { Struct2(t, Prim("int", << <<0, 1>> >>)) : t \in Small } \cup { Union2(t, Prim("text", << <<0, 0>> >>)) : t \in Small })
             \cup { ListOf(t, 0, 2) : t \in Small } \cup { ListOf(t, 1, 1) : t \in Small }
             \* size ranges that differ by their lower bound only (inclusion must look at both ends)
             \cup { ListOf(t, 0, 1) : t \in { Prim("int", << <<0, 1>> >>), Prim("text", << <<0, 0>> >>) } }
             \cup { Opt(Opt(Prim("int", << <<0, 1>> >>))) }
Types == Atomic \cup Composite

(* ---- values ------------------------------------------------------------------------ *)
PV(k, p) == [k |-> k, v |-> p]
PrimValues == UNION { { PV(k, p) : p \in 0..(NPts(k) - 1) } : k \in OrdKinds }
SomeV(v) == [k |-> "some", v |-> v]
Values == PrimValues \cup { [k |-> "unit"], [k |-> "none"] }
          \cup { SomeV(v) : v \in { PV("int", 0), PV("int", 1), PV("float", 1), PV("text", 0), PV("bool", 1) } }
          \cup { [k |-> "structv", fields |-> << [n |-> "x", v |-> v] >>] : v \in { PV("int", 0), PV("int", 1), PV("float", 1), PV("text", 0), PV("bool", 0) } }
          \cup { [k |-> "structv", fields |-> << [n |-> "x", v |-> v], [n |-> "y", v |-> PV("int", 1)] >>] : v \in { PV("int", 0), PV("float", 0), PV("text", 1), PV("bool", 1) } }
          \cup { [k |-> "listv", vs |-> vs] : vs \in { << >>, <<PV("int", 0)>>, <<PV("int", 0), PV("int", 1)>>, <<PV("text", 0)>>, <<PV("bool", 1), PV("bool", 1)>> } }

(* ---- structural denotation (same variant; cross-variant membership is the library's business) ---- *)
RECURSIVE Den(_, _)
Den(t, v) ==
    CASE t.k = "any" -> TRUE
      [] t.k = "null" -> FALSE
      [] t.k = "unit" -> v.k = "unit"
      [] t.k \in OrdKinds -> v.k = t.k /\ v.v \in Pts(t.ivs)
      [] t.k = "opt" -> v.k = "none" \/ (v.k = "some" /\ Den(t.t, v.v))
      [] t.k = "struct" -> v.k = "structv" /\ Len(v.fields) = Len(t.fields)
                           /\ \A i \in 1..Len(t.fields) : v.fields[i].n = t.fields[i].n /\ Den(t.fields[i].t, v.fields[i].v)
      [] t.k = "list" -> v.k = "listv" /\ Len(v.vs) >= t.lo /\ Len(v.vs) <= t.hi /\ \A i \in 1..Len(v.vs) : Den(t.t, v.vs[i])
      [] OTHER -> FALSE
\* kinds for which the structural denotation is the whole story (no conversion can add members of the same value kind)
SameVariant(t, v) == (t.k \in OrdKinds /\ v.k = t.k) \/ (t.k = "unit" /\ v.k = "unit")
=============================================================================
