---------------------------- MODULE Trace_Dialects ----------------------------
(***************************************************************************)
(* Judges of C17 on the real translators, the real dialect parsers and the *)
(* library's own readers.  Two kinds of records:                           *)
(*  "ident"  an identifier of spec/Dialects.tla written by a translator    *)
(*           inside a small relation: the quoted text must be the model's  *)
(*           Quoted(d, ident); the dialect's tokenizer must give the       *)
(*           identifier back; parser, reader and (SQLite) engine must      *)
(*           accept the query and keep the column names.                   *)
(*  "rel"    a whole relation (plain / privacy-unit-preserving /           *)
(*           differentially private) translated into a dialect.            *)
(***************************************************************************)
EXTENDS DialectRules, Json, IOUtils
VARIABLES l, bad
Rec == ndJsonDeserialize(IOEnv.TRACE)
Occ(s, x) == Cardinality({ i \in 1..Len(s) : s[i] = x })
BagEq(a, b) == Len(a) = Len(b) /\ \A i \in 1..Len(a) : Occ(a, a[i]) = Occ(b, a[i])

\* (a judge is evaluated only when the steps before it succeeded: one defect, one failure)
Common(r) ==
    (IF r.render # "ok" THEN {"RenderSucceeds"} ELSE {})
    \cup (IF r.render = "ok" /\ r.parse # "ok" THEN {"ParserAccepts"} ELSE {})
    \cup (IF r.parse = "ok" /\ r.survives /\ ReadsBack(r.dialect) /\ r.reread # "ok" THEN {"ReaderAccepts"} ELSE {})
    \cup (IF r.reread = "ok" /\ ~r.names_same THEN {"SameNames"} ELSE {})
    \cup (IF r.reread = "ok" /\ r.names_same /\ ~r.types_same THEN {"SameTypes"} ELSE {})
    \* a stock SQLite (none of the harness's functions) accepts the SQLite translation
    \cup (IF r.dialect = "sqlite" /\ r.parse = "ok" /\ r.survives /\ r.exec_plain = "err" THEN {"EngineAccepts"} ELSE {})
    \cup (IF r.dialect = "sqlite" /\ r.survives /\ r.exec = "ok" /\ ~r.exec_names_same THEN {"EngineSameNames"} ELSE {})
IdentFailures(r) ==
    Common(r)
    \cup (IF r.chars /\ r.quoted # Quoted(r.dialect, r.ident) THEN {"DialectQuoting"} ELSE {})
    \cup (IF r.parse = "ok" /\ ~r.survives THEN {"IdentSurvives"} ELSE {})
    \* the dialect's scanner, run by the real tokenizer, gives the identifier back (the model's RoundTrip)
    \cup (IF r.chars /\ r.parse = "ok" /\ r.survives /\ ~(\E i \in 1..Len(r.lexed) : r.lexed[i] = r.ident) THEN {"ScannerRoundTrip"} ELSE {})
RelFailures(r) ==
    Common(r)
    \* same meaning on the only offline engine (executed with the harness's functions so that more queries run)
    \cup (IF r.dialect = "sqlite" /\ r.exec = "ok" /\ ~BagEq(r.rows, r.ref_rows) THEN {"EngineSameRows"} ELSE {})
Failures(r) == IF r.kind = "ident" THEN IdentFailures(r) ELSE RelFailures(r)

TInit == l = 1 /\ bad = 0
Step == /\ l <= Len(Rec) /\ l' = l + 1
        /\ LET fs == Failures(Rec[l]) IN (\A f \in fs : PrintT(<<"JUDGE", l, f>>)) /\ bad' = bad + Cardinality(fs)
TSpec == TInit /\ [][Step]_<<l, bad>>
Accepted == IF TLCGet("stats").diameter - 1 = Len(Rec) THEN PrintT(<<"ACCEPTED", Len(Rec)>>)
            ELSE Print(<<"TRACE NOT CONSUMED, stopped at", TLCGet("stats").diameter>>, FALSE)
=============================================================================
