----------------------------- MODULE VisitorStep -----------------------------
(***************************************************************************)
(* One call of `visitor::Iterator::next` as a function on the iterator's   *)
(* state [stack, st, order, halted, yielded] (see Visitor.tla); shared by  *)
(* the state machine of Visitor.tla and by the trace specification.        *)
(***************************************************************************)
EXTENDS Integers, Sequences, FiniteSets, TLC

\* ---- one call of next() as a function on the iterator's state (shared with Trace_Visitor) ----
IterInit(nodes, n) == [stack |-> <<n>>, st |-> [x \in nodes |-> IF x = n THEN "push" ELSE "none"], order |-> << >>, halted |-> FALSE, yielded |-> "start"]
TopOf(s) == s.stack[Len(s.stack)]
PoppedOf(s) == SubSeq(s.stack, 1, Len(s.stack) - 1)
\* the pushes of the Push branch: dependencies in order, until one is found in state Visit
RECURSIVE PushDeps(_, _, _, _)
PushDeps(ds, i, stk, m) ==
    IF i > Len(ds) THEN [stack |-> stk, st |-> m, cycle |-> FALSE]
    ELSE LET d == ds[i] IN
         IF m[d] = "visit" THEN [stack |-> stk, st |-> m, cycle |-> TRUE]
         ELSE PushDeps(ds, i + 1, Append(stk, d), IF m[d] = "none" THEN [m EXCEPT ![d] = "push"] ELSE m)
StepFn(dp, s) ==
    LET a == TopOf(s) IN
    CASE s.st[a] = "push" ->
           LET r == PushDeps(dp[a], 1, Append(PoppedOf(s), a), [s.st EXCEPT ![a] = "visit"])
           IN [stack |-> r.stack, st |-> r.st, order |-> s.order, halted |-> r.cycle, yielded |-> IF r.cycle THEN s.yielded ELSE "visit"]
      [] s.st[a] = "visit" ->
           IF \A i \in 1..Len(dp[a]) : s.st[dp[a][i]] = "accept"
           THEN [stack |-> PoppedOf(s), st |-> [s.st EXCEPT ![a] = "accept"], order |-> Append(s.order, a), halted |-> FALSE, yielded |-> "accept"]
           ELSE [stack |-> PoppedOf(s), st |-> s.st, order |-> s.order, halted |-> TRUE, yielded |-> s.yielded]
      [] OTHER -> [stack |-> PoppedOf(s), st |-> s.st, order |-> s.order, halted |-> s.halted, yielded |-> "push"]

\* the whole run: the sequence of <<node, yielded state>> the iterator yields, and its final state
RECURSIVE RunFrom(_, _, _, _)
RunFrom(dp, s, acc, fuel) ==
    IF s.halted \/ s.stack = << >> \/ fuel = 0 THEN [yields |-> acc, final |-> s]
    ELSE LET a == TopOf(s) r == StepFn(dp, s)
         IN RunFrom(dp, r, IF r.halted THEN acc ELSE Append(acc, <<a, r.yielded>>), fuel - 1)
=============================================================================
