CONSTANTS
  Sample = TRUE
  MaxRows = 3
SPECIFICATION MCSpec
INVARIANTS SafeShapesSound
CHECK_DEADLOCK FALSE
