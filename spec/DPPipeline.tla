----------------------------- MODULE DPPipeline -----------------------------
(***************************************************************************)
(* The differentially-private compilation of one aggregation               *)
(* (differential_privacy/{mod,aggregates,group_by}.rs and                  *)
(* relation/rewriting.rs) as a staged state machine over a tiny database:  *)
(*                                                                         *)
(*   InsertRow        the database is built row by row                     *)
(*   Track            every row gets its privacy unit                      *)
(*   ReleaseKeys      public keys: the declared value set; private keys:   *)
(*                    de-duplicate (key, unit), keep at most Cu groups per *)
(*                    unit (in an order drawn at random), count distinct   *)
(*                    units, add noise, release iff count + noise > tau    *)
(*   JoinKeys         released keys LEFT JOIN tracked rows                 *)
(*   PartialSums      per (unit, group) sums of each measure               *)
(*   Norms            squared L2 norm of each unit's vector over groups    *)
(*   ClipAndSum       scale each unit by 1/max(1, norm/C); sum over units  *)
(*   Reassemble       count, sum, avg, var, std from the (noised) sums     *)
(*                                                                         *)
(* Measures: "one" (1 when the value is not NULL), "v" (the value), "v2"   *)
(* (its square).  Clipped sums are irrational in general; the model keeps  *)
(* the integers they are functions of: partial sums s[u][g], squared norm  *)
(* N2[u] = sum_g s[u][g]^2 and the squared bound C2, so that               *)
(*   squared norm of unit u's clipped contribution = min(N2[u], C2)        *)
(*   clipping is inactive  <=>  \A u : N2[u] <= C2                         *)
(***************************************************************************)
EXTENDS Integers, Sequences, FiniteSets, TLC, SequencesExt, FiniteSetsExt

CONSTANTS Sample,    \* TRUE: draw parameters at random (simulation)
          MaxRows
NULL == -9999
Units == 0..2
Keys == 0..1
Vals == {0, 1, 2}
\* signed configurations: the column is declared on [-2, 2] and contributions of one unit to different groups may cancel
ValsOf(c) == IF c.signed THEN {-2, 1, 2} ELSE Vals
\* (signed databases are concentrated on two units so that one unit often holds opposite values in both groups)
UnitsOf(c) == IF c.signed THEN {0, 1} ELSE Units
Measures == {"one", "v", "v2"}

Pick(S) == IF Sample /\ S # {} THEN {RandomElement(S)} ELSE S

\* configurations of the compiled query
Aggs == {"count", "sum", "avg", "var", "std", "count_distinct", "sum_distinct"}
Configs == [agg : Aggs, grouped : BOOLEAN, keys : {"public", "private"}, cu : 1..2, mult : {1, 3}, where : BOOLEAN, signed : BOOLEAN]
ValidConfig(c) == /\ (~c.grouped => c.keys = "public" /\ c.cu = 1)
                  \* signed columns are explored where cancellation across groups can show: every group released
                  /\ (c.signed => c.grouped /\ c.keys = "public" /\ ~c.where)

\* absolute bound of a measure (values are declared in [0,2]) times the multiplicity estimate
Bound(m, mult) == (CASE m = "one" -> 1 [] m = "v" -> 2 [] m = "v2" -> 4) * mult
MeasuresOf(agg) == CASE agg \in {"count", "count_distinct"} -> {"one"}
                     [] agg \in {"sum", "sum_distinct"} -> {"v"}
                     [] agg = "avg" -> {"one", "v"}
                     [] OTHER -> {"one", "v", "v2"}

VARIABLES cfg, db, target, stage,
          rows,        \* rows that reach the aggregation: sequence of [u, k, v]
          released,    \* set of released keys
          order, noise, tau   \* the random draws of the key release (private keys)
vars == <<cfg, db, target, stage, rows, released, order, noise, tau>>

RowOf(u, k, v) == [u |-> u, k |-> k, v |-> v]
AllRows(c) == { RowOf(u, k, v) : u \in UnitsOf(c), k \in Keys, v \in ValsOf(c) \cup {NULL} }
\* databases are bags: rows are inserted in non-decreasing order of a fixed enumeration
Code(r) == r.u * 100 + r.k * 10 + (IF r.v = NULL THEN 9 ELSE r.v)

Init == /\ cfg \in { c \in Configs : ValidConfig(c) }
        /\ db = << >> /\ target \in 0..MaxRows /\ stage = "db"
        /\ rows = << >> /\ released = {} /\ order = << >> /\ noise = [k \in Keys |-> 0] /\ tau = 1

InsertRow == /\ stage = "db" /\ Len(db) < target
             /\ \E r \in Pick({ x \in AllRows(cfg) : db = << >> \/ Code(db[Len(db)]) <= Code(x) }) : db' = Append(db, r)
             /\ UNCHANGED <<cfg, target, stage, rows, released, order, noise, tau>>

\* WHERE v > 0 (NULL does not pass)
Passes(r) == ~cfg.where \/ (r.v # NULL /\ r.v > 0)
Track == /\ stage = "db" /\ Len(db) = target
         /\ rows' = SelectSeq(db, Passes)
         /\ stage' = "keys"
         /\ UNCHANGED <<cfg, db, target, released, order, noise, tau>>

(* ---- key release ---------------------------------------------------------- *)
KeysOf(rs, u) == { rs[i].k : i \in { j \in 1..Len(rs) : rs[j].u = u } }
\* capping: unit u keeps the first Cu keys of its key set in the drawn order (a permutation of Keys)
Capped(rs, u, ord, cu) ==
    LET mine == SelectSeq(ord, LAMBDA k : k \in KeysOf(rs, u))
    IN { mine[i] : i \in 1..(IF Len(mine) < cu THEN Len(mine) ELSE cu) }
CountUnits(rs, k, ord, cu) == Cardinality({ u \in Units : k \in Capped(rs, u, ord, cu) })
Perms == { <<0, 1>>, <<1, 0>> }

ReleaseKeys ==
    /\ stage = "keys"
    /\ IF ~cfg.grouped THEN released' = {0} /\ UNCHANGED <<order, noise, tau>>          \* a single group
       ELSE IF cfg.keys = "public" THEN released' = Keys /\ UNCHANGED <<order, noise, tau>>
       ELSE \E ord \in Pick(Perms) : \E nz \in Pick([Keys -> {-1, 0, 1}]) : \E t \in Pick({1, 2}) :
               /\ order' = ord /\ noise' = nz /\ tau' = t
               /\ released' = { k \in Keys : CountUnits(rows, k, ord, cfg.cu) + nz[k] > t }
    /\ stage' = "done"
    /\ UNCHANGED <<cfg, db, target, rows>>

Next == InsertRow \/ Track \/ ReleaseKeys
Spec == Init /\ [][Next]_vars

(* ---- the aggregation pipeline on a set of rows (pure functions of rows) ----- *)
Group(r) == IF cfg.grouped THEN r.k ELSE 0
Meas(m, r) == CASE m = "one" -> IF r.v = NULL THEN 0 ELSE 1
                [] m = "v"   -> IF r.v = NULL THEN 0 ELSE r.v
                [] m = "v2"  -> IF r.v = NULL THEN 0 ELSE r.v * r.v
RECURSIVE SumSeq(_)
SumSeq(s) == IF s = << >> THEN 0 ELSE Head(s) + SumSeq(Tail(s))
\* rows joined with the released keys (LEFT JOIN from the keys): rows of unreleased groups disappear
Joined(rs, rel) == SelectSeq(rs, LAMBDA r : Group(r) \in rel)
PSum(rs, m, u, g) == SumSeq([i \in 1..Len(rs) |-> IF rs[i].u = u /\ Group(rs[i]) = g THEN Meas(m, rs[i]) ELSE 0])
N2(rs, rel, m, u) == SumSeq([i \in 1..Cardinality(rel) |->
                              LET g == SetToSortSeq(rel, <)[i] IN PSum(rs, m, u, g) * PSum(rs, m, u, g)])
C2(m) == Bound(m, cfg.mult) * Bound(m, cfg.mult)
Active(rs, rel) == \E m \in MeasuresOf(cfg.agg) : \E u \in Units : N2(rs, rel, m, u) > C2(m)
Total(rs, m, g) == SumSeq([i \in 1..Len(rs) |-> IF Group(rs[i]) = g THEN Meas(m, rs[i]) ELSE 0])

\* removing one unit
Minus(rs, u) == SelectSeq(rs, LAMBDA r : r.u # u)
Min2(a, b) == IF a <= b THEN a ELSE b
\* squared L2 distance, over the released groups, of the clipped sums of measure m when unit u is removed:
\* the other units' contributions do not move, the unit's own clipped vector has squared norm min(N2, C2)
Dist2(rs, rel, m, u) == Min2(N2(rs, rel, m, u), C2(m))

(* ---- invariants of the model (C01, C04) ----------------------------------- *)
Done == stage = "done"
J == Joined(rows, released)
\* C01 on the model: the sensitivity of every noised sum is bounded by the clip bound
Sensitivity == Done => \A m \in MeasuresOf(cfg.agg) : \A u \in Units : Dist2(J, released, m, u) <= C2(m)
\* a unit's partial sums and norm only depend on its own rows
Locality == Done => \A m \in MeasuresOf(cfg.agg) : \A u, w \in Units :
               u # w => N2(Joined(Minus(rows, w), released), released, m, u) = N2(J, released, m, u)
\* C04 on the model: a released private key is over the threshold; a key held by a single unit is not
\* released when the noise is not positive; no unit is counted in more than Cu groups
ReleasedOverTau == (Done /\ cfg.grouped /\ cfg.keys = "private") =>
                      \A k \in released : CountUnits(rows, k, order, cfg.cu) + noise[k] > tau
SingletonNotReleased == (Done /\ cfg.grouped /\ cfg.keys = "private") =>
                      \A k \in Keys : (Cardinality({ u \in Units : k \in KeysOf(rows, u) }) <= 1 /\ noise[k] <= 0) => k \notin released
CappedContribution == Done => \A u \in Units : Cardinality(Capped(rows, u, IF order = << >> THEN <<0, 1>> ELSE order, cfg.cu)) <= cfg.cu
=============================================================================
