CONSTANTS
  Sample = TRUE
  MaxRows = 4
SPECIFICATION MCSpec
INVARIANTS Sensitivity Locality ReleasedOverTau SingletonNotReleased CappedContribution
CHECK_DEADLOCK FALSE
