---------------------------- MODULE QueryShapes ----------------------------
(***************************************************************************)
(* The supported SQL fragment as a state machine: a state is a complete    *)
(* query over a tiny database; each action applies one SQL construct to    *)
(* the current query (add a WHERE, aggregate, join another table, wrap in  *)
(* a derived table or a CTE, order / limit, combine with a set operation)  *)
(* or inserts one row in a base table.  Every reachable state is a         *)
(* (query, database) case whose result is given by RelAlg!Eval; TLC        *)
(* explores them exhaustively (small bounds) or by simulation.             *)
(*                                                                         *)
(* Column types are tracked so that only well-typed SQL is generated:      *)
(* "int", "text" (codes 100..), "real" (only produced by AVG; projected    *)
(* but never used in predicates).                                          *)
(***************************************************************************)
EXTENDS RelAlg, TLC

CONSTANTS Sample,      \* TRUE: each action draws its parameters at random (simulation); FALSE: all of them
          MaxRows,     \* rows per base table
          MaxSteps,    \* query-building steps
          IntVals,     \* values of integer columns, e.g. 0..2
          TextVals     \* codes of text values, e.g. {100, 101}

\* parameters of an action: every element (exhaustive exploration) or one drawn at random
Pick(S) == IF Sample /\ S # {} THEN {RandomElement(S)} ELSE S

(* ---- the two base tables ------------------------------------------------- *)
\* t(a int not null, b int null, s text not null)      u(a int not null unique, c int null)
TableCols == [t |-> <<"a", "b", "s">>, u |-> <<"a", "c">>]
TableTys  == [t |-> <<"int", "int", "text">>, u |-> <<"int", "int">>]
RowsOf(tbl) == IF tbl = "t" THEN IntVals \X (IntVals \cup {NULL}) \X TextVals
               ELSE IntVals \X (IntVals \cup {NULL})
\* constraint declared on u.a: unique
HonoursConstraints(d) == \A i, j \in 1..Len(d.u.rows) : i # j => d.u.rows[i][1] # d.u.rows[j][1]

(* ---- static headers: sequence of [q, n, ty] ------------------------------- *)
Col(q, n) == [k |-> "col", q |-> q, n |-> n]
Lit(v) == [k |-> "lit", v |-> v]
Bin(op, l, r) == [k |-> "bin", op |-> op, l |-> l, r |-> r]
Item(e, as) == [e |-> e, as |-> as]

RECURSIVE TyE(_, _)
\* type of an expression over a typed header
TyE(e, h) ==
    CASE e.k = "col" -> LET m == { i \in 1..Len(h) : h[i].n = e.n /\ (e.q = "" \/ h[i].q = e.q) }
                        IN h[MinOf(m)].ty
      [] e.k = "lit" -> IF e.v >= 100 THEN "text" ELSE "int"
      [] e.k = "agg" -> IF e.fn = "avg" THEN "real" ELSE IF e.fn = "count" THEN "int" ELSE TyE(e.e, h)
      [] e.k = "case" -> TyE(e.t, h)
      [] e.k = "coalesce" -> TyE(e.l, h)
      [] OTHER -> "int"

RECURSIVE OutH(_, _), HdrF(_, _)
\* header of a FROM term; cte: function from CTE names to output headers
HdrF(f, cte) ==
    CASE f.k = "tab" -> LET q == IF f.as = "" THEN f.t ELSE f.as IN
                        IF f.t \in DOMAIN cte THEN SeqMap(cte[f.t], LAMBDA c : [q |-> q, n |-> c.n, ty |-> c.ty])
                        ELSE [i \in 1..Len(TableCols[f.t]) |-> [q |-> q, n |-> TableCols[f.t][i], ty |-> TableTys[f.t][i]]]
      [] f.k = "sub" -> SeqMap(OutH(f.q, cte), LAMBDA c : [q |-> f.as, n |-> c.n, ty |-> c.ty])
      [] f.k = "join" ->
            LET L == HdrF(f.l, cte) R == HdrF(f.r, cte)
                us == IF f.natural THEN CommonNames(L, R) ELSE f.using
            IN IF us = << >> THEN L \o R
               ELSE SeqMap(us, LAMBDA u : [q |-> "", n |-> u, ty |-> L[MinOf({ i \in 1..Len(L) : L[i].n = u })].ty])
                    \o SelectSeq(L, LAMBDA c : c.n \notin Range(us)) \o SelectSeq(R, LAMBDA c : c.n \notin Range(us))
\* output header of a query
OutH(q, cte) ==
    CASE q.k = "select" -> LET h == HdrF(q.from, cte) IN SeqMap(q.items, LAMBDA it : [q |-> "", n |-> it.as, ty |-> TyE(it.e, h)])
      [] q.k = "order"  -> OutH(q.q, cte)
      [] q.k = "setop"  -> OutH(q.l, cte)
      [] q.k = "with"   -> OutH(q.body, [n \in DOMAIN cte \cup {q.name} |-> IF n = q.name THEN OutH(q.def, cte) ELSE cte[n]])
NoCte == [n \in {} |-> << >>]
Out(q) == OutH(q, NoCte)

(* ---- pools of expressions over a typed header ----------------------------- *)
\* a reference is written qualified when the bare name would be ambiguous
Ref(h, i) == IF Cardinality({ j \in 1..Len(h) : h[j].n = h[i].n }) > 1 /\ h[i].q # ""
             THEN Col(h[i].q, h[i].n) ELSE Col("", h[i].n)
QRef(h, i) == Col(h[i].q, h[i].n)
IntCols(h)  == { i \in 1..Len(h) : h[i].ty = "int" }
TextCols(h) == { i \in 1..Len(h) : h[i].ty = "text" }
Unambiguous(h, i) == h[i].q # "" \/ Cardinality({ j \in 1..Len(h) : h[j].n = h[i].n }) = 1
Usable(h) == { i \in 1..Len(h) : Unambiguous(h, i) }

CmpOps == {"=", "<>", "<", "<=", ">", ">="}
AtomPreds(h) ==
       { Bin(op, Ref(h, i), Lit(v)) : op \in CmpOps, i \in IntCols(h) \cap Usable(h), v \in {0, 1} }
  \cup { Bin(op, Lit(1), Ref(h, i)) : op \in {"<", ">="}, i \in IntCols(h) \cap Usable(h) }
  \cup { Bin(op, Ref(h, i), Ref(h, j)) : op \in {"=", "<", "<>"}, i \in IntCols(h) \cap Usable(h), j \in IntCols(h) \cap Usable(h) }
  \cup { Bin(op, Ref(h, i), Lit(v)) : op \in {"=", "<>", "<"}, i \in TextCols(h) \cap Usable(h), v \in TextVals }
  \cup { [k |-> "isnull", e |-> Ref(h, i)] : i \in IntCols(h) \cap Usable(h) }
  \cup { [k |-> "not", e |-> [k |-> "isnull", e |-> Ref(h, i)]] : i \in IntCols(h) \cap Usable(h) }
  \cup { [k |-> "in", e |-> Ref(h, i), vs |-> {0, 2}] : i \in IntCols(h) \cap Usable(h) }
  \cup { Bin(">", Bin("+", Ref(h, i), Ref(h, j)), Lit(2)) : i \in IntCols(h) \cap Usable(h), j \in IntCols(h) \cap Usable(h) }
Preds(h) ==
    LET A == AtomPreds(h) IN
    A \cup { Bin(op, p, r) : op \in {"and", "or"}, p \in A, r \in A }
      \cup { [k |-> "not", e |-> p] : p \in A }

\* scalar (non aggregate) item expressions
ScalarExprs(h) ==
       { Ref(h, i) : i \in Usable(h) }
  \cup { Bin(op, Ref(h, i), Lit(1)) : op \in {"+", "-", "*"}, i \in IntCols(h) \cap Usable(h) }
  \cup { Bin(op, Ref(h, i), Ref(h, j)) : op \in {"+", "*"}, i \in IntCols(h) \cap Usable(h), j \in IntCols(h) \cap Usable(h) }
  \cup { [k |-> "case", c |-> Bin(">", Ref(h, i), Lit(0)), t |-> Ref(h, i), f |-> Lit(0)] : i \in IntCols(h) \cap Usable(h) }
  \cup { [k |-> "case", c |-> [k |-> "isnull", e |-> Ref(h, i)], t |-> Lit(2), f |-> Ref(h, i)] : i \in IntCols(h) \cap Usable(h) }
  \cup { [k |-> "coalesce", l |-> Ref(h, i), r |-> Lit(0)] : i \in IntCols(h) \cap Usable(h) }
  \cup { Bin(">", Ref(h, i), Lit(0)) : i \in IntCols(h) \cap Usable(h) }
  \* comparisons that hold exactly at an end of the declared range 0..2 (the type of the projected column must keep TRUE)
  \cup { Bin(">=", Ref(h, i), Lit(2)) : i \in IntCols(h) \cap Usable(h) }
  \cup { Bin("<=", Ref(h, i), Lit(0)) : i \in IntCols(h) \cap Usable(h) }
  \cup { Lit(v) : v \in {1} \cup TextVals }

AggExprs(h) ==
       { [k |-> "countstar"] }
  \cup { [k |-> "agg", fn |-> fn, distinct |-> d, e |-> Ref(h, i)] :
            fn \in {"count", "sum", "min", "max", "avg"}, d \in BOOLEAN, i \in IntCols(h) \cap Usable(h) }
  \cup { [k |-> "agg", fn |-> fn, distinct |-> FALSE, e |-> Ref(h, i)] : fn \in {"count", "min", "max"}, i \in TextCols(h) \cap Usable(h) }
  \cup { [k |-> "agg", fn |-> "sum", distinct |-> FALSE, e |-> Bin("*", Ref(h, i), Ref(h, j))] :
            i \in IntCols(h) \cap Usable(h), j \in IntCols(h) \cap Usable(h) }
  \cup { Bin("+", [k |-> "agg", fn |-> "sum", distinct |-> FALSE, e |-> Ref(h, i)], [k |-> "countstar"]) : i \in IntCols(h) \cap Usable(h) }
  \cup { Bin("*", Lit(2), [k |-> "agg", fn |-> "count", distinct |-> FALSE, e |-> Ref(h, i)]) : i \in IntCols(h) \cap Usable(h) }

\* grouping expressions
GroupExprs(h) ==
       { Ref(h, i) : i \in Usable(h) }
  \cup { Bin("+", Ref(h, i), Lit(1)) : i \in IntCols(h) \cap Usable(h) }
  \cup { Bin(">", Ref(h, i), Lit(0)) : i \in IntCols(h) \cap Usable(h) }

Names == <<"x", "y", "z", "w", "v">>
AllItems(h) == [i \in 1..Len(h) |-> Item(Ref(h, i), IF Cardinality({ j \in 1..Len(h) : h[j].n = h[i].n }) > 1
                                                   THEN h[i].n \o "_" \o ToString(i) ELSE h[i].n)]

(* ---- the state machine ---------------------------------------------------- *)
VARIABLES q,       \* the current query ([k |-> "none"] before Start)
          db,      \* the database
          target,  \* number of rows each table will have
          steps,   \* number of query-building steps
          last     \* name of the last action (coverage, keys of findings)
vars == <<q, db, target, steps, last>>

EmptyDb == [t |-> [cols |-> TableCols.t, rows |-> << >>], u |-> [cols |-> TableCols.u, rows |-> << >>]]
Init == /\ q = [k |-> "none"] /\ db = EmptyDb /\ steps = 0 /\ last = "init"
        /\ target \in [{"t", "u"} -> 0..MaxRows]
Sealed == \A tbl \in {"t", "u"} : Len(db[tbl].rows) = target[tbl]

\* rows are only inserted before the query is started (so that a behaviour is db ; query steps)
InsertRow == /\ ~Sealed
             /\ \E tbl \in {"t", "u"} :
                   /\ Len(db[tbl].rows) < target[tbl]
                   /\ \E r \in Pick({ r \in RowsOf(tbl) : HonoursConstraints([db EXCEPT ![tbl].rows = Append(@, r)]) }) :
                         db' = [db EXCEPT ![tbl].rows = Append(@, r)]
             /\ UNCHANGED <<q, steps, target>> /\ last' = "InsertRow"

IsSel(x) == x.k = "select"
Aggregated(x) == IsSel(x) /\ (x.group # << >> \/ x.having # NoE \/ \E i \in 1..Len(x.items) : HasAgg(x.items[i].e))
SelectAll(f) == [k |-> "select", from |-> f, items |-> AllItems(HdrF(f, NoCte)), where |-> NoE,
                 group |-> << >>, having |-> NoE, distinct |-> FALSE]
Step(nq, name) == q' = nq /\ steps' = steps + 1 /\ last' = name /\ UNCHANGED <<db, target>>

Start == /\ q.k = "none" /\ Sealed
         /\ \E tbl \in Pick({"t", "u"}) : \E al \in Pick({"", "p"}) :
               Step(SelectAll([k |-> "tab", t |-> tbl, as |-> al]), "Start")

\* a fresh plain select block: the FROM is settled, nothing else yet
Plain(x) == IsSel(x) /\ x.where = NoE /\ ~Aggregated(x) /\ ~x.distinct /\ x.items = AllItems(HdrF(x.from, NoCte))

Where == /\ IsSel(q) /\ q.where = NoE /\ ~Aggregated(q) /\ steps < MaxSteps
         /\ LET A == AtomPreds(HdrF(q.from, NoCte)) IN
            \E form \in Pick({"atom", "and", "or", "not"}) : \E p1 \in Pick(A) : \E p2 \in Pick(IF form \in {"and", "or"} THEN A ELSE {p1}) :
               Step([q EXCEPT !.where = CASE form = "atom" -> p1
                                           [] form = "not" -> [k |-> "not", e |-> p1]
                                           [] OTHER -> Bin(form, p1, p2)], "Where")

Project == /\ IsSel(q) /\ ~Aggregated(q) /\ ~q.distinct /\ steps < MaxSteps
           /\ q.items = AllItems(HdrF(q.from, NoCte))
           /\ LET h == HdrF(q.from, NoCte) IN
              \E e1 \in Pick(ScalarExprs(h)) : \E e2 \in Pick(ScalarExprs(h) \cup {NoE}) :
                 \* output names: fresh names, or (a source of confusion) the name of an input column
                 \E shadow \in Pick(BOOLEAN) :
                    LET es == IF e2 = NoE THEN <<e1>> ELSE <<e1, e2>>
                        nm(i) == IF shadow /\ i = 1 THEN h[1].n ELSE Names[i]
                    IN Step([q EXCEPT !.items = [i \in 1..Len(es) |-> Item(es[i], nm(i))]], "Project")

Aggregate == /\ IsSel(q) /\ ~Aggregated(q) /\ ~q.distinct /\ steps < MaxSteps
             /\ q.items = AllItems(HdrF(q.from, NoCte))
             /\ LET h == HdrF(q.from, NoCte)
                    G1 == { <<g>> : g \in GroupExprs(h) }
                    G2 == { <<Ref(h, i), Ref(h, j)>> : i \in Usable(h), j \in Usable(h) }
                    A2 == { [k |-> "countstar"] } \cup { [k |-> "agg", fn |-> "sum", distinct |-> FALSE, e |-> Ref(h, i)] : i \in IntCols(h) \cap Usable(h) }
                IN
                \E gs \in Pick({ << >> } \cup G1 \cup { g \in G2 : g[1] # g[2] }) :
                \E a1 \in Pick(AggExprs(h)) : \E as2 \in Pick({ << >> } \cup { <<a>> : a \in A2 }) :
                \E showkeys \in Pick({"all", "first", "none", "shadow"}) :
                \E noagg \in Pick({FALSE, FALSE, TRUE}) :       \* sometimes a GROUP BY without any aggregate (only its keys)
                   LET ng == Len(gs)
                       as == IF noagg /\ ng > 0 /\ showkeys \in {"all", "first"} THEN << >> ELSE <<a1>> \o as2
                       \* "shadow": the key is an unqualified integer column and the item shown is a non-injective expression
                       \* of it under the column's own name (SELECT (a * 0) AS a .. GROUP BY a): GROUP BY still means the column
                       shadowable == ng > 0 /\ gs[1].k = "col" /\ gs[1].q = "" /\ \E i \in IntCols(h) : h[i].n = gs[1].n
                       keyitems == IF showkeys = "all" THEN [i \in 1..ng |-> Item(gs[i], "g" \o ToString(i))]
                                   ELSE IF showkeys = "first" /\ ng > 0 THEN << Item(gs[1], "g1") >>
                                   ELSE IF showkeys = "shadow" /\ shadowable THEN << Item(Bin("*", gs[1], Lit(0)), gs[1].n) >> ELSE << >>
                       aggitems == [i \in 1..Len(as) |-> Item(as[i], Names[i])]
                   IN Step([q EXCEPT !.group = gs, !.items = keyitems \o aggitems], "Aggregate")

Having == /\ IsSel(q) /\ Aggregated(q) /\ q.having = NoE /\ steps < MaxSteps
          /\ LET h == HdrF(q.from, NoCte) IN
             \E a \in Pick({ x \in AggExprs(h) : x.k \in {"countstar", "agg"} /\ (x.k = "agg" => x.fn # "avg" /\ TyE(x, h) = "int") }) :
             \E op \in Pick({">", "=", "<="}) : \E v \in Pick({0, 1, 2}) :
                Step([q EXCEPT !.having = Bin(op, a, Lit(v))], "Having")

Distinct == /\ IsSel(q) /\ ~q.distinct /\ ~Aggregated(q) /\ steps < MaxSteps
            /\ Step([q EXCEPT !.distinct = TRUE], "Distinct")

\* LIMIT is only generated under a total order (every output column is a key), so that the
\* result is a function of the query and the database; LIMIT 0 needs no order.
OrderBy == /\ q.k = "select" /\ steps < MaxSteps
           /\ LET o == Out(q)
                  K == { i \in 1..Len(o) : o[i].ty # "real" /\ Cardinality({ j \in 1..Len(o) : o[j].n = o[i].n }) = 1 }
                  KS == { << >> } \cup { <<i>> : i \in K } \cup { p \in K \X K : p[1] # p[2] }
                  Total(ks) == K = 1..Len(o) /\ { ks[i] : i \in 1..Len(ks) } = K
              IN
              \E ks \in Pick(KS \cup { p \in K \X K \X K : p[1] # p[2] /\ p[2] # p[3] /\ p[1] # p[3] }) :
              \E a1 \in Pick(BOOLEAN) : \E a2 \in Pick(BOOLEAN) :
              \E lim \in Pick({-1, 0, 1, 2}) : \E off \in Pick({-1, 0, 1}) :
                 /\ (Len(ks) > 0 \/ lim = 0)
                 /\ (off >= 0 => lim >= 0)             \* OFFSET without LIMIT is not portable
                 /\ (lim > 0 => Total(ks))
                 /\ Step([k |-> "order", q |-> q,
                          keys |-> [i \in 1..Len(ks) |-> [e |-> Col("", o[ks[i]].n), asc |-> IF i = 1 THEN a1 ELSE a2]],
                          limit |-> lim, offset |-> off], "OrderBy")

DistinctNames(o) == \A i, j \in 1..Len(o) : i # j => o[i].n # o[j].n

\* (a query with its own WITH may become a derived table: a later CTE of the same name must not capture its references)
Derive == /\ q.k \in {"select", "order", "setop", "with"} /\ steps < MaxSteps /\ DistinctNames(Out(q))
          /\ \E al \in Pick({"d", "t"}) :     \* "t" shadows the base table of that name
                Step(SelectAll([k |-> "sub", q |-> q, as |-> al]), "Derive")

Cte == /\ q.k \in {"select", "order", "setop"} /\ steps < MaxSteps /\ DistinctNames(Out(q))
       /\ \E nm \in Pick({"w", "u"}) :        \* "u" shadows the base table of that name
          \E al \in Pick({"", "r"}) :
             LET body == [k |-> "select", from |-> [k |-> "tab", t |-> nm, as |-> al],
                          items |-> AllItems(SeqMap(Out(q), LAMBDA c : [q |-> IF al = "" THEN nm ELSE al, n |-> c.n, ty |-> c.ty])),
                          where |-> NoE, group |-> << >>, having |-> NoE, distinct |-> FALSE]
             IN Step([k |-> "with", name |-> nm, def |-> q, body |-> body], "Cte")

JoinKinds == {"inner", "left", "right", "full", "cross"}
\* every alias / table name a FROM term introduces
RECURSIVE AliasesF(_)
AliasesF(f) == CASE f.k = "tab" -> { IF f.as = "" THEN f.t ELSE f.as }
                 [] f.k = "sub" -> { f.as }
                 [] f.k = "join" -> AliasesF(f.l) \cup AliasesF(f.r)
Join == /\ Plain(q) /\ q.from.k \in {"tab", "sub", "join"} /\ steps < MaxSteps
        /\ LET L == HdrF(q.from, NoCte) IN
           \E tbl \in Pick({"t", "u"}) : \E al \in Pick({"j", "k"}) :
              LET rt == [k |-> "tab", t |-> tbl, as |-> al]
                  R  == HdrF(rt, NoCte)
                  LQ == { i \in IntCols(L) : L[i].q # "" }
                  RQ == IntCols(R)
                  ons == { Bin(op, QRef(L, i), QRef(R, j)) : op \in {"=", "<"}, i \in LQ, j \in RQ }
                         \cup { Bin("and", Bin("=", QRef(L, i), QRef(R, j)), Bin(">", QRef(R, j2), Lit(0))) : i \in LQ, j \in RQ, j2 \in RQ }
                         \cup { Bin("=", QRef(R, j), QRef(L, i)) : i \in LQ, j \in RQ }
                  common == CommonNames(L, R)
                  \* USING / NATURAL need each shared name to be unique on both sides
                  \* ... and to have the same type on both sides (a text = int USING is a type error in PostgreSQL)
                  SameTy(c) == \A i \in 1..Len(L) : \A j \in 1..Len(R) : (L[i].n = c /\ R[j].n = c) => L[i].ty = R[j].ty
                  usable == \A c \in Range(common) : Cardinality({ i \in 1..Len(L) : L[i].n = c }) = 1 /\ SameTy(c)
                  AliasFree == al \notin AliasesF(q.from)
                  \* (RelAlg pads the rows an outer join keeps with the integer NULL; an AVG column is a record there:
                  \*  outer joins are not generated over inputs that carry one)
                  NoReal == \A i \in 1..Len(L) : L[i].ty # "real"
              IN /\ AliasFree
                 /\ \E kind \in Pick(IF NoReal THEN JoinKinds ELSE {"inner", "cross"}) :
                       \/ /\ kind # "cross"
                          /\ \E on \in Pick(ons) :
                                Step(SelectAll([k |-> "join", kind |-> kind, l |-> q.from, r |-> rt, on |-> on,
                                                using |-> << >>, natural |-> FALSE]), "JoinOn")
                       \/ /\ kind = "cross"
                          /\ Step(SelectAll([k |-> "join", kind |-> kind, l |-> q.from, r |-> rt, on |-> NoE,
                                             using |-> << >>, natural |-> FALSE]), "JoinCross")
                       \/ /\ kind # "cross" /\ common # << >> /\ usable
                          /\ \E nat \in Pick(BOOLEAN) :
                                Step(SelectAll([k |-> "join", kind |-> kind, l |-> q.from, r |-> rt, on |-> NoE,
                                                using |-> IF nat THEN << >> ELSE <<common[1]>>, natural |-> nat]),
                                     IF nat THEN "JoinNatural" ELSE "JoinUsing")

\* the right operand of a set operation: a simple select with the same column types
SetOperand(tys) ==
    LET pool(ty) == IF ty = "int" THEN { Col("", "a"), Col("", "b"), Lit(1) } ELSE { Col("", "s"), Lit(100) }
    IN { [k |-> "select", from |-> [k |-> "tab", t |-> "t", as |-> ""],
          items |-> [i \in 1..Len(tys) |-> Item(es[i], Names[i])], where |-> w, group |-> << >>, having |-> NoE, distinct |-> FALSE]
         : es \in { f \in [1..Len(tys) -> UNION { pool(ty) : ty \in {"int", "text"} }] : \A i \in 1..Len(tys) : f[i] \in pool(tys[i]) },
           w \in { NoE, Bin(">", Col("", "a"), Lit(0)) } }

SetOp == /\ IsSel(q) /\ steps < MaxSteps /\ Len(q.items) <= 2
         /\ LET tys == SeqMap(Out(q), LAMBDA c : c.ty) IN
            /\ \A i \in 1..Len(tys) : tys[i] \in {"int", "text"}
            /\ \E op \in Pick({"union", "intersect", "except"}) : \E all \in Pick(BOOLEAN) : \E r \in Pick(SetOperand(tys)) :
                  /\ (all => op = "union")      \* SQLite has no INTERSECT ALL / EXCEPT ALL
                  /\ Step([k |-> "setop", op |-> op, all |-> all, l |-> q, r |-> r], "SetOp")

Next == InsertRow \/ Start \/ Where \/ Project \/ Aggregate \/ Having \/ Distinct \/ OrderBy \/ Derive \/ Cte \/ Join \/ SetOp
Spec == Init /\ [][Next]_vars

(* ---- model-level sanity --------------------------------------------------- *)
\* every generated query evaluates, to a relation whose width is the static header's
Result == IF q.k = "none" THEN Rel(<< >>, << >>) ELSE Eval(q, db)
WellTyped == q.k # "none" => Len(Result.hdr) = Len(Out(q))
=============================================================================
