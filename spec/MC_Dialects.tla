----------------------------- MODULE MC_Dialects -----------------------------
EXTENDS Dialects, Json
\* one REPLAY line per identifier (the driver runs every dialect on it), printed from the initial states of one dialect
Emit == (mode = "start" /\ dialect = "postgresql") =>
           PrintT(<<"REPLAY", ToJson([ident |-> ident, quoted |-> [d \in Dialect |-> Quoted(d, ident)]])>>)
=============================================================================
