------------------------------ MODULE MC_NameRes ------------------------------
EXTENDS NameRes, Json
Emit == Done => PrintT(<<"REPLAY", ToJson([cte |-> cte, ctew |-> ctew, items |-> items, joins |-> joins, ref |-> ref, res |-> Resolution])>>)
=============================================================================
