------------------------------ MODULE MC_NameRes ------------------------------
EXTENDS NameRes, Json
Emit == Done => PrintT(<<"REPLAY", ToJson([cte |-> cte, items |-> items, joins |-> joins, ref |-> ref, res |-> Resolution])>>)
=============================================================================
