CONSTANTS
  N = 6
  Cap = 3
  Depth = 4
SPECIFICATION Spec
VIEW View
INVARIANTS WellFormed NoPointLost ExactUnderCapacity SubsetSound SubsetExact ContainsExact ContainsOwn LastJudged Emit
CHECK_DEADLOCK FALSE
