------------------------------- MODULE Convert -------------------------------
(***************************************************************************)
(* Conversions between variants of data types (data_type/injection.rs,     *)
(* C12): the graph of base injections the library declares, lifted to      *)
(* optional and struct targets, and the case space (source type, target    *)
(* variant) the driver replays on the real into_data_type / inject_into.   *)
(*                                                                         *)
(* An injection  A -> variant(B)  must be                                  *)
(*   total on A            every value of A converts                       *)
(*   into the image type   the converted value lies in into_data_type(A,B) *)
(*   injective             different values have different images          *)
(*   reversible            the reverse conversion, where declared, returns *)
(*                         the value                                       *)
(*   lossless or refused   a non-integral float does not become an         *)
(*                         integer, an integer other than 0/1 not a bool   *)
(***************************************************************************)
EXTENDS DataTypes

\* base injections declared in injection.rs between the kinds of the universe
Edge == { <<"bool", "int">>, <<"bool", "text">>, <<"int", "bool">>, <<"int", "float">>, <<"int", "text">>,
          <<"float", "int">>, <<"float", "text">>, <<"text", "bytes">>, <<"date", "datetime">>, <<"date", "text">>,
          <<"datetime", "date">>, <<"datetime", "text">> }
\* conditional edges: they exist only for sources without a lossy value
Conditional == { <<"int", "bool">>, <<"float", "int">>, <<"datetime", "date">> }
\* compositions the library builds with then_default: through integer, and through text into bytes
Composed == { <<"bool", "float">> } \cup { <<k, "bytes">> : k \in { x \in OrdKinds : <<x, "text">> \in Edge } }
Targets == OrdKinds \cup {"bytes", "opt_int", "opt_same", "struct_x"}

KindOf(t) == IF t.k = "opt" THEN "opt" ELSE t.k
\* may the library convert a type of kind k into target `to` at all (an upper bound: conditional edges included)
MayConvert(k, to) ==
    CASE to \in OrdKinds \cup {"bytes"} -> k = to \/ <<k, to>> \in Edge \cup Composed
      [] to = "opt_int" -> k \in {"int", "opt"} \/ <<k, "int">> \in Edge
      [] to = "opt_same" -> TRUE
      [] to = "struct_x" -> k = "struct"
      [] OTHER -> FALSE

Sources == { Prim(k, s) : k \in OrdKinds \ {"bool"}, s \in { << <<0, 0>> >>, << <<1, 1>> >>, << <<0, 1>> >>, << <<0, 0>>, <<1, 1>> >>, << <<1, 1>>, <<3, 3>> >>, << <<0, 0>>, <<2, 2>>, <<4, 4>> >>,
                                                             << <<0, 4>> >>, << <<2, 2>> >>, << <<0, 0>>, <<1, 1>>, <<2, 2>>, <<3, 3>>, <<4, 4>> >> } }
           \cup { Prim("bool", s) : s \in { << <<0, 0>> >>, << <<1, 1>> >>, << <<0, 1>> >> } }
           \cup { Opt(Prim("int", << <<0, 0>>, <<1, 1>> >>)), Opt(Prim("float", << <<0, 0>>, <<2, 2>> >>)), Opt(Prim("bool", << <<0, 1>> >>)) }
           \cup { Struct1(Prim("int", << <<0, 0>>, <<1, 1>> >>)), Struct1(Prim("float", << <<0, 0>>, <<2, 2>> >>)) }
Cases == { [a |-> a, to |-> to] : a \in Sources, to \in Targets }
=============================================================================
