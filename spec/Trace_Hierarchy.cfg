CONSTANTS
  Alphabet = {1, 2}
  MaxLen = 2
  Objects = {1, 2}
SPECIFICATION Spec
POSTCONDITION Accepted
CHECK_DEADLOCK FALSE
