--------------------------- MODULE Trace_JoinFilter ---------------------------
(***************************************************************************)
(* Judge of predicate narrowing in the ON clause of a join (C10): one      *)
(* record per (predicate, column types, join kind, embedding) with, for    *)
(* every pair (left row, right row) of universe points, the truth value of *)
(* the ON predicate and the membership of each side's value in the type of *)
(* the corresponding output column of the real Join.                       *)
(*   MatchedPairKept     the predicate is TRUE on a pair => both values    *)
(*                       belong to their output column                     *)
(*   PreservedSideWhole  a LEFT (RIGHT, FULL) join returns every left      *)
(*                       (right, both) row whatever the predicate says:    *)
(*                       every input value of the preserved side belongs   *)
(*                       to its output column                              *)
(*   NullPaddedSide      the side padded with NULLs is typed nullable      *)
(***************************************************************************)
EXTENDS Integers, Sequences, FiniteSets, TLC, Json, IOUtils
VARIABLES l, bad
Rec == ndJsonDeserialize(IOEnv.TRACE)
PreservesLeft(k) == k \in {"left", "full"}
PreservesRight(k) == k \in {"right", "full"}
Failures(r) ==
    (IF r.join # "ok" THEN {"JoinBuilds"} ELSE {})
    \cup (IF r.join = "ok" /\ \E i \in 1..Len(r.rows) : r.rows[i].pred = "true" /\ ~(r.rows[i].l_in /\ r.rows[i].r_in) THEN {"MatchedPairKept"} ELSE {})
    \cup (IF r.join = "ok" /\ ((PreservesLeft(r.kind) /\ \E i \in 1..Len(r.rows) : ~r.rows[i].l_in)
                            \/ (PreservesRight(r.kind) /\ \E i \in 1..Len(r.rows) : ~r.rows[i].r_in)) THEN {"PreservedSideWhole"} ELSE {})
    \cup (IF r.join = "ok" /\ ((PreservesLeft(r.kind) /\ ~r.r_nullable) \/ (PreservesRight(r.kind) /\ ~r.l_nullable)) THEN {"NullPaddedSide"} ELSE {})
Init == l = 1 /\ bad = 0
Step == /\ l <= Len(Rec) /\ l' = l + 1
        /\ LET fs == Failures(Rec[l]) IN (\A f \in fs : PrintT(<<"JUDGE", l, f>>)) /\ bad' = bad + Cardinality(fs)
Spec == Init /\ [][Step]_<<l, bad>>
Accepted == IF TLCGet("stats").diameter - 1 = Len(Rec) THEN PrintT(<<"ACCEPTED", Len(Rec)>>)
            ELSE Print(<<"TRACE NOT CONSUMED, stopped at", TLCGet("stats").diameter>>, FALSE)
=============================================================================
