CONSTANTS
  N = 3
  Rich = FALSE
SPECIFICATION Spec
INVARIANT Emit
CHECK_DEADLOCK FALSE
