----------------------------- MODULE MC_DPMulti -----------------------------
(***************************************************************************)
(* SELECT lists with several aggregates for the budget accounting of C03.  *)
(* The DP compiler splits the aggregates of one Reduce by their DISTINCT   *)
(* clause (one sub-Reduce for the plain aggregates, one per column under   *)
(* DISTINCT), hands each sub-Reduce an equal part of the budget and, in a  *)
(* sub-Reduce, each Gaussian mechanism an equal part of that.  Every       *)
(* aggregate is a mechanism - also COUNT(k) or COUNT(DISTINCT k) over the  *)
(* grouping key k, whose value depends on the rows of the group.           *)
(* The model enumerates the lists; the parts are counted in units of B.    *)
(***************************************************************************)
EXTENDS Naturals, FiniteSets, TLC, Json
Pool == {"count_v", "sum_v", "count_k", "count_distinct_v", "sum_distinct_v", "count_distinct_k"}
Shapes == {"ungrouped", "public", "private"}
B == 840
IsDistinct(a) == a \in {"count_distinct_v", "sum_distinct_v", "count_distinct_k"}
ColOf(a) == IF a \in {"count_k", "count_distinct_k"} THEN "k" ELSE "v"
\* the sub-Reduces: one for the plain aggregates, one per column under DISTINCT
SplitsOf(s) == (IF \E a \in s : ~IsDistinct(a) THEN {{a \in s : ~IsDistinct(a)}} ELSE {})
               \cup {{a \in s : IsDistinct(a) /\ ColOf(a) = col} : col \in {ColOf(a) : a \in {x \in s : IsDistinct(x)}}}
Part(s, a) == LET sp == CHOOSE p \in SplitsOf(s) : a \in p IN (B \div Cardinality(SplitsOf(s))) \div Cardinality(sp)
RECURSIVE Sum(_, _)
Sum(s, S) == IF S = {} THEN 0 ELSE LET a == CHOOSE a \in S : TRUE IN Part(s, a) + Sum(s, S \ {a})
VARIABLE c
Cases == {[aggs |-> s, shape |-> sh] : s \in {S \in SUBSET Pool : Cardinality(S) \in 2..3}, sh \in Shapes}
Init == c \in Cases
Next == UNCHANGED c
Spec == Init /\ [][Next]_c
\* every aggregate has a positive part and the parts fit the budget
EveryAggregateHasAPart == \A a \in c.aggs : Part(c.aggs, a) > 0
BudgetFits == Sum(c.aggs, c.aggs) <= B
SplitsPartition == (UNION SplitsOf(c.aggs)) = c.aggs /\ \A p, q \in SplitsOf(c.aggs) : p # q => p \cap q = {}
Emit == PrintT(<<"REPLAY", ToJson([aggs |-> c.aggs, shape |-> c.shape, splits |-> Cardinality(SplitsOf(c.aggs))])>>)
=============================================================================
