------------------------- MODULE MC_RewritingRules -------------------------
(* TLC wrapper: one REPLAY line per finished case (tree, configuration, model outcome). *)
EXTENDS RewritingRules, TLC, Json

Emit == Done => PrintT(<<"REPLAY", ToJson([tree |-> tree, sd |-> sd, strategy |-> strategy, entry |-> entry,
                                            set0 |-> set0, rules |-> rules,
                                            nderivs |-> Len(derivs[Len(tree)]), naccepted |-> Len(accepted),
                                            outcome |-> outcome,
                                            chosen |-> IF outcome.k = "ok" THEN accepted[outcome.chosen] ELSE [rule |-> R(<< >>, "none"), kids |-> << >>]])>>)
ASSUME RuleTableSound
=============================================================================
