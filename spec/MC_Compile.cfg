CONSTANTS
  Forms = {"select", "sum", "group_avg", "where"}
  Exprs = {"a+b", "a-b", "a*b", "a/b", "b/a", "a/a", "1/a", "a%2", "-a", "abs(a)", "abs(b)", "exp(b)", "ln(b)", "log(b)", "sqrt(b)", "pow(b,2)", "a+0.5", "a*0.5", "cast_float(a)", "cast_int(b)", "cast_text(a)", "case", "coalesce(b,0)", "a>b", "a in", "greatest", "least", "round(b)", "floor(b)", "ceil(b)", "sign(a)", "sin(b)", "cos(b)", "lower(s)", "upper(s)", "char_length(s)", "concat", "substr", "md5(s)", "a*a*a"}
  ASchemas = {"small", "zero_inside", "zero_width", "big", "full", "values", "many_intervals"}
  BSchemas = {"float_unit", "float_pos", "float_full", "float_zero", "opt_int", "float_many"}
  Sizes = {"exact", "unbounded"}
  Params = {"default", "eps0", "delta0", "tau0", "tau1", "groups0"}
  Unsupported = {"no_from", "comma_join", "qualified_wildcard", "group_by_all", "distinct_on", "top", "lateral", "window", "nested_setop", "values_query", "semi_join", "var_pop", "zero_arg_abs", "dup_alias", "ambiguous_column", "unknown_table", "unknown_column", "unknown_function", "cte_shadow", "natural_three"}
SPECIFICATION MCSpec
INVARIANT Emit
CHECK_DEADLOCK FALSE
