---------------------------- MODULE Trace_Convert ----------------------------
(***************************************************************************)
(* Judges of C12 on the real conversions: one record per (source type,     *)
(* target, embedding) with, for every universe value of the source type,   *)
(* the outcome of the value conversion.                                    *)
(***************************************************************************)
EXTENDS Integers, Sequences, FiniteSets, TLC, Json, IOUtils
VARIABLES l, bad
Rec == ndJsonDeserialize(IOEnv.TRACE)
Ok(r) == { j \in 1..Len(r.vals) : r.vals[j].out = "ok" }
Failures(r) ==
    (IF r.type_conv = "panic" THEN {"ConversionPanics"} ELSE {})
    \* the type converts => every value of it converts
    \cup (IF r.type_conv = "ok" /\ \E j \in 1..Len(r.vals) : r.vals[j].out # "ok" THEN {"ValueConverts"} ELSE {})
    \cup (IF r.type_conv = "ok" /\ \E j \in Ok(r) : ~r.vals[j].in_converted THEN {"ImageContained"} ELSE {})
    \cup (IF r.type_conv = "ok" /\ \E j, k \in Ok(r) : j # k /\ r.vals[j].image_id = r.vals[k].image_id THEN {"Injective"} ELSE {})
    \cup (IF r.type_conv = "ok" /\ \E j \in Ok(r) : r.vals[j].back \in {"different", "panic", "err"} THEN {"RoundTrip"} ELSE {})
    \* lossy conversions are refused, whatever the type-level answer
    \cup (IF \E j \in Ok(r) : (r.to = "int" /\ r.src = "float" /\ ~r.vals[j].integral)
                            \/ (r.to = "bool" /\ r.src \in {"int", "float"} /\ ~r.vals[j].is01) THEN {"LossyRefused"} ELSE {})
    \* nothing converts along an edge the graph does not have
    \cup (IF r.type_conv = "ok" /\ ~r.may THEN {"drift:OutsideGraph"} ELSE {})
Init == l = 1 /\ bad = 0
Step == /\ l <= Len(Rec) /\ l' = l + 1
        /\ LET fs == Failures(Rec[l]) IN (\A f \in fs : PrintT(<<"JUDGE", l, f>>)) /\ bad' = bad + Cardinality(fs)
Spec == Init /\ [][Step]_<<l, bad>>
Accepted == IF TLCGet("stats").diameter - 1 = Len(Rec) THEN PrintT(<<"ACCEPTED", Len(Rec)>>)
            ELSE Print(<<"TRACE NOT CONSUMED, stopped at", TLCGet("stats").diameter>>, FALSE)
=============================================================================
