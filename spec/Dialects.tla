------------------------------- MODULE Dialects -------------------------------
(***************************************************************************)
(* The scanner that reads back a quoted identifier written according to    *)
(* DialectRules.tla, as a state machine (one character per step), and the  *)
(* design property: reading what was written gives the identifier back,    *)
(* whatever characters it contains (the other dialects' quote characters,  *)
(* spaces, dots, upper case).                                              *)
(***************************************************************************)
EXTENDS DialectRules
CONSTANTS MaxLen
RECURSIVE SeqsUpTo(_)
SeqsUpTo(n) == IF n = 0 THEN { << >> } ELSE LET S == SeqsUpTo(n - 1) IN S \cup { Append(s, c) : s \in S, c \in Chars }
Idents == SeqsUpTo(MaxLen) \ { << >> }

(* ---- the scanner ------------------------------------------------------------ *)
VARIABLES dialect, ident, text, pos, mode, acc
vars == <<dialect, ident, text, pos, mode, acc>>
Init == /\ dialect \in Dialect /\ ident \in Idents
        /\ text = Quoted(dialect, ident) /\ pos = 1 /\ mode = "start" /\ acc = << >>
AtEnd == pos > Len(text)
Cur == text[pos]
Open == /\ mode = "start" /\ ~AtEnd /\ Cur = QuoteOf(dialect)
        /\ mode' = "in" /\ pos' = pos + 1 /\ UNCHANGED <<dialect, ident, text, acc>>
Take == /\ mode = "in" /\ ~AtEnd /\ Cur # QuoteOf(dialect)
        /\ acc' = Append(acc, Cur) /\ pos' = pos + 1 /\ UNCHANGED <<dialect, ident, text, mode>>
SeeQuote == /\ mode = "in" /\ ~AtEnd /\ Cur = QuoteOf(dialect)
            /\ mode' = "quote" /\ pos' = pos + 1 /\ UNCHANGED <<dialect, ident, text, acc>>
Escaped == /\ mode = "quote" /\ ~AtEnd /\ Cur = QuoteOf(dialect)
           /\ acc' = Append(acc, Cur) /\ mode' = "in" /\ pos' = pos + 1 /\ UNCHANGED <<dialect, ident, text>>
Close == /\ mode = "quote" /\ (IF AtEnd THEN TRUE ELSE Cur # QuoteOf(dialect))
         /\ mode' = "done" /\ UNCHANGED <<dialect, ident, text, pos, acc>>
Unterminated == /\ mode \in {"start", "in"} /\ AtEnd
                /\ mode' = "error" /\ UNCHANGED <<dialect, ident, text, pos, acc>>
Next == Open \/ Take \/ SeeQuote \/ Escaped \/ Close \/ Unterminated
Spec == Init /\ [][Next]_vars /\ WF_vars(Next)

NeverError == mode # "error"
RoundTrip == mode = "done" => (acc = ident /\ pos = Len(text) + 1)
Terminates == <>(mode \in {"done", "error"})
=============================================================================
