CONSTANTS
  Thin = 1
SPECIFICATION Spec
INVARIANTS Emit
CHECK_DEADLOCK FALSE
