----------------------------- MODULE MC_Visitor -----------------------------
EXTENDS Visitor, Json
\* one REPLAY line per graph: printed from the initial states
Emit == (yielded = "start") => PrintT(<<"REPLAY", ToJson([n |-> N, deps |-> [i \in Nodes |-> deps[i]]])>>)
=============================================================================
