SPECIFICATION Spec
CONSTANTS
  N = 3
  MaxDeps = 2
  Cyclic = TRUE
INVARIANTS OnceEach DagNeverHalts DagAllVisited DagTopological DagRootLast DagAcceptReturns CycleStops Emit
PROPERTY Terminates
CHECK_DEADLOCK FALSE
