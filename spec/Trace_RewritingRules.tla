------------------------ MODULE Trace_RewritingRules ------------------------
(***************************************************************************)
(* Judges of the rewriting search (C13) and of label soundness (C02) on    *)
(* what the real code did for one case: the rule sets really attached to   *)
(* every node, the rule sets kept by the real eliminator, the real list of *)
(* derivations with the real scores, the outcome of the real entry point   *)
(* and which derivations its result is the rewriting of, and the exposure  *)
(* of protected rows measured on every real rewritten relation.            *)
(* Everything declarative (consistent derivations, well-typedness, local   *)
(* soundness of a rule, meaning of a label) comes from RewritingRules.tla  *)
(* and is evaluated on the *real* rule sets: a changed rule table is       *)
(* judged on its own merits, not against the model's table.                *)
(***************************************************************************)
EXTENDS Integers, Sequences, FiniteSets, TLC, Json, IOUtils, SequencesExt

VARIABLES l, bad
Rec == ndJsonDeserialize(IOEnv.TRACE)

RR == INSTANCE RewritingRules WITH MaxNodes <- 0, tree <- << >>, sd <- FALSE, strategy <- "Hard", entry <- "dp",
          phase <- "done", at <- 1, rules <- << >>, set0 <- << >>, derivs <- << >>, accepted <- << >>, outcome <- [k |-> "none"]

ToRule(j) == [ins |-> j.ins, out |-> j.out]
RECURSIVE ToDeriv(_)
ToDeriv(j) == [rule |-> ToRule(j.rule), kids |-> [i \in 1..Len(j.kids) |-> ToDeriv(j.kids[i])]]
ToRules(js) == [n \in 1..Len(js) |-> [i \in 1..Len(js[n]) |-> ToRule(js[n][i])]]
SeqSet(s) == { s[i] : i \in 1..Len(s) }

\* rules a derivation uses, per node of the tree
RECURSIVE Used(_, _, _)
Used(t, d, n) == {<<n, d.rule>>} \cup UNION { Used(t, d.kids[i], t[n].kids[i]) : i \in 1..Len(d.kids) }

Failures(r) ==
    LET t      == r.tree
        root   == Len(t)
        setr   == ToRules(r.set_rules)
        kept   == ToRules(r.kept_rules)
        real   == [i \in 1..Len(r.derivs) |-> ToDeriv(r.derivs[i].d)]
        decl   == RR!Derivs(t, setr, root)
        okroot == RR!Acceptable(r.entry)
        accI   == { i \in 1..Len(real) : real[i].rule.out \in okroot }
        ch     == SeqSet(r.chosen)
    IN
    (IF r.outcome \notin {"ok", "unreachable"} THEN {"ResultOrUnreachable"} ELSE {})
    \cup (IF SeqSet(real) # SeqSet(decl) THEN {"SelectComplete"} ELSE {})
    \cup (IF \E i \in 1..Len(real) : ~RR!WellTyped(real[i]) THEN {"WellTyped"} ELSE {})
    \cup (IF \E i \in 1..Len(real) : \E p \in Used(t, real[i], root) : p[2] \notin SeqSet(setr[p[1]]) THEN {"UsesAttachedRules"} ELSE {})
    \cup (IF \E n \in 1..Len(t) : ~(SeqSet(kept[n]) \subseteq SeqSet(setr[n])) THEN {"ElimOnlyRemoves"} ELSE {})
    \cup (IF \E i \in 1..Len(decl) : \E p \in Used(t, decl[i], root) : p[2] \notin SeqSet(kept[p[1]]) THEN {"ElimComplete"} ELSE {})
    \cup (IF (r.outcome = "unreachable") # ({ i \in 1..Len(decl) : decl[i].rule.out \in okroot } = {}) THEN {"OutcomeIff"} ELSE {})
    \cup (IF r.outcome = "ok" /\ ch = {} THEN {"AppliedIsDerivation"} ELSE {})
    \cup (IF r.outcome = "ok" /\ ch # {} /\ ~(\E c \in ch : c \in accI /\ \A i \in accI : r.derivs[i].score <= r.derivs[c].score)
          THEN {"AppliedIsBest"} ELSE {})
    \* ---- C02
    \cup (IF \E n \in 1..Len(t) : \E i \in 1..Len(setr[n]) : ~RR!LocalRuleSound(t[n].kind, setr[n][i]) THEN {"RuleSound"} ELSE {})
    \cup (IF \E n \in 1..Len(t) : t[n].kind = "TableProt" /\ \E i \in 1..Len(setr[n]) : setr[n][i].out \in {"Pub", "Pubd", "DP"} THEN {"ProtectedNeverPub"} ELSE {})
    \cup (IF \E i \in 1..Len(real) : r.derivs[i].exposure # "none" /\ ~RR!LabelSound(real[i].rule.out, r.derivs[i].exposure) THEN {"ExposureSound"} ELSE {})
    \cup (IF r.entry = "dp" /\ r.outcome = "ok" /\ \E c \in ch : r.derivs[c].exposure # "none" /\ RR!Rank(r.derivs[c].exposure) > RR!Rank("Noised")
          THEN {"RootNotExposed"} ELSE {})
    \* the same on the relation the entry point returned, whether or not it was recognised as one of the derivations
    \cup (IF r.entry = "dp" /\ r.outcome = "ok" /\ r.result_exposure # "none" /\ RR!Rank(r.result_exposure) > RR!Rank("Noised")
          THEN {"ResultNotExposed"} ELSE {})

Drifts(r) ==
    LET t == r.tree
        setr == ToRules(r.set_rules)
        model == [n \in 1..Len(t) |-> RR!RuleTable(t[n].kind, r.sd, r.strategy)]
    IN (IF setr # model THEN {"rule_table"} ELSE {})
       \cup (IF r.outcome = "ok" /\ r.model_chosen # 0 /\ r.model_chosen \notin SeqSet(r.chosen) THEN {"chosen"} ELSE {})
       \cup (IF r.outcome # r.model_outcome THEN {"outcome"} ELSE {})

Init == l = 1 /\ bad = 0
Step == /\ l <= Len(Rec)
        /\ l' = l + 1
        /\ LET r == Rec[l] fs == Failures(r) IN
           /\ \A f \in fs : PrintT(<<"JUDGE", l, f>>)
           /\ \A d \in Drifts(r) : PrintT(<<"DRIFT", l, d>>)
           /\ bad' = bad + Cardinality(fs)
Spec == Init /\ [][Step]_<<l, bad>>
Accepted == IF TLCGet("stats").diameter - 1 = Len(Rec) THEN PrintT(<<"ACCEPTED", Len(Rec)>>)
            ELSE Print(<<"TRACE NOT CONSUMED, stopped at", TLCGet("stats").diameter>>, FALSE)
=============================================================================
