----------------------------- MODULE Trace_Filter -----------------------------
(***************************************************************************)
(* Judge of predicate narrowing (C10) on the real DataType::filter: one    *)
(* record per (predicate, column types, embedding) with, for every row of  *)
(* universe points in the input type, the value of the predicate and       *)
(* whether the row still belongs to the narrowed type.                     *)
(*   NarrowKeepsRow   predicate is TRUE on a row of the input type  =>     *)
(*                    the row is in the narrowed type                      *)
(*   NarrowSucceeds   narrowing does not panic                             *)
(***************************************************************************)
EXTENDS Integers, Sequences, FiniteSets, TLC, Json, IOUtils
VARIABLES l, bad
Rec == ndJsonDeserialize(IOEnv.TRACE)
Failures(r) ==
    (IF r.filter # "ok" THEN {"NarrowSucceeds"} ELSE {})
    \cup (IF r.filter = "ok" /\ \E i \in 1..Len(r.rows) : r.rows[i].pred = "true" /\ r.rows[i].in_input /\ ~r.rows[i].in THEN {"NarrowKeepsRow"} ELSE {})
Init == l = 1 /\ bad = 0
Step == /\ l <= Len(Rec) /\ l' = l + 1
        /\ LET fs == Failures(Rec[l]) IN (\A f \in fs : PrintT(<<"JUDGE", l, f>>)) /\ bad' = bad + Cardinality(fs)
Spec == Init /\ [][Step]_<<l, bad>>
Accepted == IF TLCGet("stats").diameter - 1 = Len(Rec) THEN PrintT(<<"ACCEPTED", Len(Rec)>>)
            ELSE Print(<<"TRACE NOT CONSUMED, stopped at", TLCGet("stats").diameter>>, FALSE)
=============================================================================
