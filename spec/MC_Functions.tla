----------------------------- MODULE MC_Functions -----------------------------
(* Enumeration of the cases of ExprCases.tla: which = "image" (C06), "filter" (C10) or "unique" (C14, projections of a UNIQUE column); Sample thins the large products out. *)
EXTENDS ExprCases, Json
CONSTANTS Which, Thin
VARIABLES c
ImageCases == Depth1 \cup Aggregates \cup Depth2
FilterCases == { [pred |-> p, cols |-> cs] : p \in Predicates, cs \in FilterCols }
Keep(x) == Thin = 1 \/ RandomElement(0..(Thin - 1)) = 0
Init == CASE Which = "image" -> c \in { x \in ImageCases : Keep(x) }
          [] Which = "unique" -> c \in { x \in UniqueCases : Keep(x) }
          [] OTHER -> c \in { x \in FilterCases : Keep(x) }
Next == FALSE /\ UNCHANGED c
Spec == Init /\ [][Next]_c
Emit == PrintT(<<"REPLAY", ToJson(c)>>)
=============================================================================
