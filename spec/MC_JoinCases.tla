---------------------------- MODULE MC_JoinCases ----------------------------
EXTENDS JoinCases, Json
CONSTANT Thin
VARIABLE c
Keep(x) == Thin = 1 \/ RandomElement(0..(Thin - 1)) = 0
Init == c \in { x \in Cases : Keep(x) }
Next == FALSE /\ UNCHANGED c
Spec == Init /\ [][Next]_c
Emit == PrintT(<<"REPLAY", ToJson([lu |-> c.lu, ru |-> c.ru, rev |-> c.rev, kind |-> c.kind, l |-> c.l, r |-> c.r,
                                    left_stays |-> LeftStaysUnique(c), right_stays |-> RightStaysUnique(c)])>>)
\* the rule of JoinCases.tla, checked once on the whole case space
ASSUME RuleSound /\ RuleTight
=============================================================================
