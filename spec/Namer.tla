-------------------------------- MODULE Namer --------------------------------
(***************************************************************************)
(* The process-wide name counter of qrlew (namer.rs) and the compilation   *)
(* jobs that may draw from it, run by several threads.                     *)
(*                                                                         *)
(* A job is the compilation of one query against fixed tables; what        *)
(* matters here is the sequence of name-producing steps it performs:       *)
(*   [k |-> "content"]            a name derived from the hash of the node *)
(*                                content (pure: name_from_content)        *)
(*   [k |-> "count", p |-> pfx]   a draw from the shared counter of a      *)
(*                                prefix (new_name / new_id): lock,        *)
(*                                read-modify-write, unlock                *)
(* Which steps a real job performs is not assumed: the driver observes the *)
(* real compiler (hook in namer::count) and instantiates JobSteps with     *)
(* what it saw.                                                            *)
(*                                                                         *)
(* The output of a job is the sequence of values it drew; C16 asks that it *)
(* be a function of the job only, whatever the interleaving and whatever   *)
(* ran before.                                                             *)
(***************************************************************************)
EXTENDS Integers, Sequences, FiniteSets, TLC

CONSTANTS Threads,     \* e.g. {1, 2}
          Program,     \* thread -> sequence of job names
          JobSteps,    \* job name -> sequence of steps
          Prefixes     \* the counter keys that occur

VARIABLES counter,     \* prefix -> next value (-1: never drawn: the first draw returns 0)
          lock,        \* 0 or the thread holding the counter mutex
          pc,          \* thread -> [job |-> index in its program, step |-> index in the job, phase |-> "idle" | "locked"]
          out,         \* thread -> sequence (per job of its program) of sequences of drawn values
          log          \* ghost: the draws in the order they happened: <<prefix, value>>
vars == <<counter, lock, pc, out, log>>

Init == /\ counter = [p \in Prefixes |-> -1]
        /\ lock = 0
        /\ pc = [t \in Threads |-> [job |-> 1, step |-> 1, phase |-> "idle"]]
        /\ out = [t \in Threads |-> [j \in 1..Len(Program[t]) |-> << >>]]
        /\ log = << >>

Finished(t) == pc[t].job > Len(Program[t])
CurJob(t) == Program[t][pc[t].job]
CurStep(t) == JobSteps[CurJob(t)][pc[t].step]
\* move to the next step / job
Advance(t) == IF pc[t].step < Len(JobSteps[CurJob(t)])
              THEN [pc EXCEPT ![t] = [job |-> pc[t].job, step |-> pc[t].step + 1, phase |-> "idle"]]
              ELSE [pc EXCEPT ![t] = [job |-> pc[t].job + 1, step |-> 1, phase |-> "idle"]]

\* a job without any step
SkipEmpty(t) == /\ ~Finished(t) /\ JobSteps[CurJob(t)] = << >>
                /\ pc' = [pc EXCEPT ![t] = [job |-> pc[t].job + 1, step |-> 1, phase |-> "idle"]]
                /\ UNCHANGED <<counter, lock, out, log>>

\* name_from_content: no shared state
Content(t) == /\ ~Finished(t) /\ JobSteps[CurJob(t)] # << >> /\ CurStep(t).k = "content" /\ pc[t].phase = "idle"
              /\ pc' = Advance(t)
              /\ UNCHANGED <<counter, lock, out, log>>

\* count(prefix): COUNTER.lock()
Acquire(t) == /\ ~Finished(t) /\ JobSteps[CurJob(t)] # << >> /\ CurStep(t).k = "count" /\ pc[t].phase = "idle"
              /\ lock = 0
              /\ lock' = t
              /\ pc' = [pc EXCEPT ![t].phase = "locked"]
              /\ UNCHANGED <<counter, out, log>>

\* ... .entry(key).and_modify(|c| *c += 1).or_default(), and the guard is dropped
CountAndRelease(t) ==
    /\ ~Finished(t) /\ pc[t].phase = "locked" /\ lock = t
    /\ LET p == CurStep(t).p
           v == counter[p] + 1
       IN /\ counter' = [counter EXCEPT ![p] = v]
          /\ out' = [out EXCEPT ![t][pc[t].job] = Append(@, v)]
          /\ log' = Append(log, <<p, v>>)
    /\ lock' = 0
    /\ pc' = Advance(t)

Next == \E t \in Threads : SkipEmpty(t) \/ Content(t) \/ Acquire(t) \/ CountAndRelease(t)
Spec == Init /\ [][Next]_vars /\ \A t \in Threads : WF_vars(SkipEmpty(t) \/ Content(t) \/ Acquire(t) \/ CountAndRelease(t))

(* ---- properties -------------------------------------------------------------- *)
MutualExclusion == \A t1, t2 \in Threads : (pc[t1].phase = "locked" /\ pc[t2].phase = "locked") => t1 = t2
\* the values drawn for one prefix are 0, 1, 2, ... in the order of the draws
PerPrefixSequential == \A i \in 1..Len(log) :
                          log[i][2] = Cardinality({ j \in 1..(i - 1) : log[j][1] = log[i][1] })
Draws(job) == \E i \in 1..Len(JobSteps[job]) : JobSteps[job][i].k = "count"
JobDone(t, j) == pc[t].job > j
\* C16: two completed runs of the same job have the same output
Deterministic(jobs) == \A t1, t2 \in Threads : \A j1 \in 1..Len(Program[t1]) : \A j2 \in 1..Len(Program[t2]) :
                          (Program[t1][j1] = Program[t2][j2] /\ Program[t1][j1] \in jobs /\ JobDone(t1, j1) /\ JobDone(t2, j2))
                             => out[t1][j1] = out[t2][j2]
AllJobs == { Program[t][j] : t \in Threads, j \in 1..3 } \cap DOMAIN JobSteps
\* jobs that never draw from the counter are deterministic under every interleaving and history
DrawFreeDeterministic == Deterministic({ job \in DOMAIN JobSteps : ~Draws(job) })
\* (expected to fail as soon as a job draws: the counterexample is a schedule, replayed on the real code)
AllDeterministic == Deterministic(DOMAIN JobSteps)
Termination == <>(\A t \in Threads : Finished(t))
=============================================================================
