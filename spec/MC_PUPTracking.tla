--------------------------- MODULE MC_PUPTracking ---------------------------
EXTENDS PUPTracking, Json
EmitCurrent == Done => PrintT(<<"REPLAY", ToJson([q |-> q, pudef |-> pudef, db |-> db, nonnull |-> PuNonNull, local |-> Locality, safe |-> Safe(q)])>>)
MCNext == EmitCurrent /\ Next
MCSpec == Init /\ [][MCNext]_vars
=============================================================================
