---------------------------- MODULE MC_Intervals ----------------------------
(* Model-checking wrapper: TLC-only definitions (JSON emission for replay). *)
EXTENDS Intervals, TLC, Json

\* one REPLAY line per distinct (state, last transition): the edge is replayed
\* into the real Intervals<B> by the harness
Emit == last.op # "init" => PrintT(<<"REPLAY", ToJson(last)>>)

\* `depth` is a history variable: it bounds the exploration but two states that
\* differ only by depth have the same future
View == <<ivs, pts, collapsed, last>>
=============================================================================
