------------------------------- MODULE RelAlg -------------------------------
(***************************************************************************)
(* Bag semantics of the SQL fragment that qrlew compiles, and therefore of *)
(* the relation IR (Table / Map / Reduce / Join / Set / Values) it is      *)
(* compiled to.                                                            *)
(*                                                                         *)
(* Values are small integers; NULL is the sentinel below; text values are  *)
(* the codes 100.. (their order is the byte order of the strings they      *)
(* stand for); booleans are 1 / 0 / NULL (SQL three-valued logic).         *)
(* A relation value is [hdr |-> sequence of [q, n] (qualifier, name),      *)
(*                      rows |-> sequence of rows (sequences of values)].  *)
(* Row order is only significant after an ORDER BY.                        *)
(***************************************************************************)
EXTENDS Integers, Sequences, FiniteSets, SequencesExt, Functions, FiniteSetsExt  \* Range(f) comes from Functions

NULL == -9999
NoE == [k |-> "none"]          \* absent optional expression

(* ---- small helpers ------------------------------------------------------- *)
SeqMap(s, F(_)) == [i \in 1..Len(s) |-> F(s[i])]
RECURSIVE SumSeq(_)
SumSeq(s) == IF s = << >> THEN 0 ELSE Head(s) + SumSeq(Tail(s))
RECURSIVE FlatSeq(_)
FlatSeq(ss) == IF ss = << >> THEN << >> ELSE Head(ss) \o FlatSeq(Tail(ss))
MinOf(S) == CHOOSE x \in S : \A y \in S : x <= y
MaxOf(S) == CHOOSE x \in S : \A y \in S : x >= y

\* remove duplicates keeping first occurrences
RECURSIVE Dedup(_)
Dedup(s) == IF s = << >> THEN << >>
            ELSE LET rest == Dedup(SubSeq(s, 1, Len(s) - 1)) last == s[Len(s)]
                 IN IF last \in Range(rest) THEN rest ELSE Append(rest, last)
\* number of occurrences
Count(s, x) == Cardinality({ i \in 1..Len(s) : s[i] = x })

(* ---- three-valued logic -------------------------------------------------- *)
B(b) == IF b THEN 1 ELSE 0
And3(x, y) == IF x = 0 \/ y = 0 THEN 0 ELSE IF x = NULL \/ y = NULL THEN NULL ELSE 1
Or3(x, y)  == IF x = 1 \/ y = 1 THEN 1 ELSE IF x = NULL \/ y = NULL THEN NULL ELSE 0
Not3(x)    == IF x = NULL THEN NULL ELSE 1 - x
Strict(x, y, v) == IF x = NULL \/ y = NULL THEN NULL ELSE v

(* ---- column lookup ------------------------------------------------------- *)
\* indices of the header entries a reference (q, n) can denote: q = "" matches any qualifier
Matches(hdr, q, n) == { i \in 1..Len(hdr) : hdr[i].n = n /\ (q = "" \/ hdr[i].q = q) }
\* the generator only produces unambiguous references; the first match is taken
ColIdx(hdr, q, n) == LET m == Matches(hdr, q, n) IN IF m = {} THEN 0 ELSE MinOf(m)

(* ---- scalar expressions -------------------------------------------------- *)
BinOp(op, x, y) ==
    CASE op = "+"   -> Strict(x, y, x + y)
      [] op = "-"   -> Strict(x, y, x - y)
      [] op = "*"   -> Strict(x, y, x * y)
      [] op = "="   -> Strict(x, y, B(x = y))
      [] op = "<>"  -> Strict(x, y, B(x # y))
      [] op = "<"   -> Strict(x, y, B(x < y))
      [] op = "<="  -> Strict(x, y, B(x <= y))
      [] op = ">"   -> Strict(x, y, B(x > y))
      [] op = ">="  -> Strict(x, y, B(x >= y))
      [] op = "and" -> And3(x, y)
      [] op = "or"  -> Or3(x, y)

RECURSIVE EvalE(_, _, _)
EvalE(e, hdr, row) ==
    CASE e.k = "col"  -> row[ColIdx(hdr, e.q, e.n)]
      [] e.k = "lit"  -> e.v
      [] e.k = "bin"  -> BinOp(e.op, EvalE(e.l, hdr, row), EvalE(e.r, hdr, row))
      [] e.k = "not"  -> Not3(EvalE(e.e, hdr, row))
      [] e.k = "isnull" -> B(EvalE(e.e, hdr, row) = NULL)
      [] e.k = "case" -> IF EvalE(e.c, hdr, row) = 1 THEN EvalE(e.t, hdr, row) ELSE EvalE(e.f, hdr, row)
      [] e.k = "coalesce" -> LET x == EvalE(e.l, hdr, row) IN IF x # NULL THEN x ELSE EvalE(e.r, hdr, row)
      [] e.k = "in"   -> LET x == EvalE(e.e, hdr, row) IN
                         IF x = NULL THEN NULL ELSE B(x \in e.vs)

(* ---- aggregates ---------------------------------------------------------- *)
\* average is kept exact as [num, den]; the binding compares num/den with the engine's float
Agg(fn, distinct, vals) ==
    LET nn == SelectSeq(vals, LAMBDA v : v # NULL)
        vs == IF distinct THEN Dedup(nn) ELSE nn
    IN CASE fn = "count" -> Len(vs)
         [] fn = "sum"   -> IF vs = << >> THEN NULL ELSE SumSeq(vs)
         [] fn = "min"   -> IF vs = << >> THEN NULL ELSE MinOf(Range(vs))
         [] fn = "max"   -> IF vs = << >> THEN NULL ELSE MaxOf(Range(vs))
         \* always a record (never compared with an integer): the average of nothing is num = NULL
         [] fn = "avg"   -> IF vs = << >> THEN [num |-> NULL, den |-> 1] ELSE [num |-> SumSeq(vs), den |-> Len(vs)]

\* an expression over a group of rows: aggregates range over the group, anything else is
\* evaluated on the first row (legal SQL makes it a function of the grouping keys)
RECURSIVE EvalG(_, _, _)
EvalG(e, hdr, rows) ==
    CASE e.k = "agg"   -> Agg(e.fn, e.distinct, SeqMap(rows, LAMBDA r : EvalE(e.e, hdr, r)))
      [] e.k = "countstar" -> Len(rows)
      [] e.k = "bin"   -> BinOp(e.op, EvalG(e.l, hdr, rows), EvalG(e.r, hdr, rows))
      [] e.k = "not"   -> Not3(EvalG(e.e, hdr, rows))
      [] e.k = "isnull" -> B(EvalG(e.e, hdr, rows) = NULL)
      [] e.k = "case"  -> IF EvalG(e.c, hdr, rows) = 1 THEN EvalG(e.t, hdr, rows) ELSE EvalG(e.f, hdr, rows)
      [] e.k = "coalesce" -> LET x == EvalG(e.l, hdr, rows) IN IF x # NULL THEN x ELSE EvalG(e.r, hdr, rows)
      [] e.k = "lit"   -> e.v
      [] OTHER -> IF rows = << >> THEN NULL ELSE EvalE(e, hdr, rows[1])

RECURSIVE HasAgg(_)
HasAgg(e) ==
    CASE e.k \in {"agg", "countstar"} -> TRUE
      [] e.k = "bin" -> HasAgg(e.l) \/ HasAgg(e.r)
      [] e.k \in {"not", "isnull"} -> HasAgg(e.e)
      [] e.k = "case" -> HasAgg(e.c) \/ HasAgg(e.t) \/ HasAgg(e.f)
      [] e.k = "coalesce" -> HasAgg(e.l) \/ HasAgg(e.r)
      [] OTHER -> FALSE

(* ---- ordering ------------------------------------------------------------ *)
\* SQLite: NULL is smaller than every value
Key(v) == IF v = NULL THEN -100000 ELSE v
\* row r1 strictly before r2 under keys <<[i |-> column index, asc |-> bool]>> evaluated beforehand
RECURSIVE Before(_, _, _)
Before(k1, k2, dirs) ==
    IF k1 = << >> THEN FALSE
    ELSE LET a == Key(Head(k1)) b == Key(Head(k2)) IN
         IF a = b THEN Before(Tail(k1), Tail(k2), Tail(dirs))
         ELSE IF Head(dirs) THEN a < b ELSE a > b
\* stable sort of indices by keys
SortIdx(keys, dirs) ==
    SetToSortSeq(1..Len(keys), LAMBDA i, j : Before(keys[i], keys[j], dirs) \/ (~Before(keys[j], keys[i], dirs) /\ i < j))

(* ---- relations ----------------------------------------------------------- *)
Rel(h, r) == [hdr |-> h, rows |-> r]
Requalify(rel, q) == Rel(SeqMap(rel.hdr, LAMBDA c : [q |-> q, n |-> c.n]), rel.rows)

NullRow(n) == [i \in 1..n |-> NULL]

\* names shared by two headers (for NATURAL), in the order of the left header
CommonNames(h1, h2) == SelectSeq(SeqMap(h1, LAMBDA c : c.n), LAMBDA n : \E j \in 1..Len(h2) : h2[j].n = n)

JoinRel(kind, L, R, cond, using) ==
    \* cond: expression over the concatenated header (ON), or NoE with `using` = sequence of names
    LET hdr == L.hdr \o R.hdr
        Test(l, r) == IF using # << >>
                      THEN \A u \in Range(using) :
                              LET x == l[ColIdx(L.hdr, "", u)] y == r[ColIdx(R.hdr, "", u)]
                              IN x # NULL /\ y # NULL /\ x = y
                      ELSE IF cond = NoE THEN TRUE ELSE EvalE(cond, hdr, l \o r) = 1
        pairs == { p \in (1..Len(L.rows)) \X (1..Len(R.rows)) : Test(L.rows[p[1]], R.rows[p[2]]) }
        ord   == SetToSortSeq(pairs, LAMBDA x, y : x[1] < y[1] \/ (x[1] = y[1] /\ x[2] < y[2]))
        inner == SeqMap(ord, LAMBDA p : L.rows[p[1]] \o R.rows[p[2]])
        lonly == SelectSeq(L.rows, LAMBDA l : \A j \in 1..Len(R.rows) : ~Test(l, R.rows[j]))
        ronly == SelectSeq(R.rows, LAMBDA r : \A i \in 1..Len(L.rows) : ~Test(L.rows[i], r))
        lpad  == SeqMap(lonly, LAMBDA l : l \o NullRow(Len(R.hdr)))
        rpad  == SeqMap(ronly, LAMBDA r : NullRow(Len(L.hdr)) \o r)
        rows  == CASE kind \in {"inner", "cross"} -> inner
                   [] kind = "left"  -> inner \o lpad
                   [] kind = "right" -> inner \o rpad
                   [] kind = "full"  -> inner \o lpad \o rpad
        full  == Rel(hdr, rows)
    IN IF using = << >> THEN full
       ELSE \* USING / NATURAL: one coalesced column per shared name, then the remaining columns
            LET keepL == SelectSeq([i \in 1..Len(L.hdr) |-> i], LAMBDA i : L.hdr[i].n \notin Range(using))
                keepR == SelectSeq([i \in 1..Len(R.hdr) |-> i], LAMBDA i : R.hdr[i].n \notin Range(using))
                nl    == Len(L.hdr)
                h2    == SeqMap(using, LAMBDA u : [q |-> "", n |-> u])
                         \o SeqMap(keepL, LAMBDA i : L.hdr[i]) \o SeqMap(keepR, LAMBDA i : R.hdr[i])
                Co(row, u) == LET x == row[ColIdx(L.hdr, "", u)] y == row[nl + ColIdx(R.hdr, "", u)]
                              IN IF x # NULL THEN x ELSE y
                r2    == SeqMap(rows, LAMBDA row : SeqMap(using, LAMBDA u : Co(row, u))
                                        \o SeqMap(keepL, LAMBDA i : row[i]) \o SeqMap(keepR, LAMBDA i : row[nl + i]))
            IN Rel(h2, r2)

\* GROUP BY: groups in order of first appearance; NULL keys group together
GroupRows(rows, keys) ==
    LET ks == Dedup(keys)
    IN SeqMap(ks, LAMBDA k : SelectSeq([i \in 1..Len(rows) |-> i], LAMBDA i : keys[i] = k))

\* one SELECT block
SelectRel(src, items, where, group, having, distinct) ==
    LET hdr   == src.hdr
        kept  == IF where = NoE THEN src.rows ELSE SelectSeq(src.rows, LAMBDA r : EvalE(where, hdr, r) = 1)
        outh  == SeqMap(items, LAMBDA it : [q |-> "", n |-> it.as])
        agg   == group # << >> \/ (\E i \in 1..Len(items) : HasAgg(items[i].e)) \/ having # NoE
        rows  == IF ~agg
                 THEN SeqMap(kept, LAMBDA r : SeqMap(items, LAMBDA it : EvalE(it.e, hdr, r)))
                 ELSE LET keys   == SeqMap(kept, LAMBDA r : SeqMap(group, LAMBDA g : EvalE(g, hdr, r)))
                          groups == IF group = << >> THEN << [i \in 1..Len(kept) |-> i] >> ELSE GroupRows(kept, keys)
                          grows  == SeqMap(groups, LAMBDA g : SeqMap(g, LAMBDA i : kept[i]))
                          passed == IF having = NoE THEN grows
                                    ELSE SelectSeq(grows, LAMBDA g : EvalG(having, hdr, g) = 1)
                      IN SeqMap(passed, LAMBDA g : SeqMap(items, LAMBDA it : EvalG(it.e, hdr, g)))
    IN Rel(outh, IF distinct THEN Dedup(rows) ELSE rows)

OrderRel(rel, keys, limit, offset) ==
    \* keys: sequence of [e |-> expr over rel.hdr, asc |-> BOOLEAN]; limit/offset: -1 when absent
    LET ks   == SeqMap(rel.rows, LAMBDA r : SeqMap(keys, LAMBDA k : EvalE(k.e, rel.hdr, r)))
        dirs == SeqMap(keys, LAMBDA k : k.asc)
        idx  == IF keys = << >> THEN [i \in 1..Len(rel.rows) |-> i] ELSE SortIdx(ks, dirs)
        srt  == SeqMap(idx, LAMBDA i : rel.rows[i])
        off  == IF offset < 0 THEN 0 ELSE offset
        from == IF off >= Len(srt) THEN << >> ELSE SubSeq(srt, off + 1, Len(srt))
        lim  == IF limit < 0 \/ limit >= Len(from) THEN from ELSE SubSeq(from, 1, limit)
    IN Rel(rel.hdr, lim)

RECURSIVE BagMinus(_, _)
BagMinus(a, b) == IF b = << >> THEN a
                  ELSE LET x == Head(b) i == SelectInSeq(a, LAMBDA y : y = x)
                       IN BagMinus(IF i = 0 THEN a ELSE RemoveAt(a, i), Tail(b))
SetRel(op, all, L, R) ==
    LET rows == CASE op = "union"     -> IF all THEN L.rows \o R.rows ELSE Dedup(L.rows \o R.rows)
                  [] op = "intersect" -> IF all THEN BagMinus(L.rows, BagMinus(L.rows, R.rows))
                                         ELSE SelectSeq(Dedup(L.rows), LAMBDA r : r \in Range(R.rows))
                  [] op = "except"    -> IF all THEN BagMinus(L.rows, R.rows)
                                         ELSE SelectSeq(Dedup(L.rows), LAMBDA r : r \notin Range(R.rows))
    IN Rel(L.hdr, rows)

(* ---- queries ------------------------------------------------------------- *)
\* db: [table name -> [cols |-> sequence of names, rows |-> sequence of rows]]
\* env: function from CTE names to relation values (a record; "" when empty)
RECURSIVE EvalQ(_, _, _), EvalF(_, _, _)
EvalF(f, db, env) ==
    CASE f.k = "tab" -> LET base == IF f.t \in DOMAIN env THEN env[f.t]
                                    ELSE Rel(SeqMap(db[f.t].cols, LAMBDA c : [q |-> f.t, n |-> c]), db[f.t].rows)
                        IN Requalify(base, IF f.as = "" THEN f.t ELSE f.as)
      [] f.k = "sub" -> Requalify(EvalQ(f.q, db, env), f.as)
      [] f.k = "join" -> LET L == EvalF(f.l, db, env) R == EvalF(f.r, db, env)
                         IN JoinRel(f.kind, L, R, f.on,
                                    IF f.natural THEN CommonNames(L.hdr, R.hdr) ELSE f.using)
EvalQ(q, db, env) ==
    CASE q.k = "select" -> SelectRel(EvalF(q.from, db, env), q.items, q.where, q.group, q.having, q.distinct)
      [] q.k = "order"  -> OrderRel(EvalQ(q.q, db, env), q.keys, q.limit, q.offset)
      [] q.k = "setop"  -> SetRel(q.op, q.all, EvalQ(q.l, db, env), EvalQ(q.r, db, env))
      [] q.k = "with"   -> EvalQ(q.body, db, [n \in DOMAIN env \cup {q.name} |->
                                              IF n = q.name THEN EvalQ(q.def, db, env) ELSE env[n]])

Eval(q, db) == EvalQ(q, db, [n \in {} |-> 0])
=============================================================================
