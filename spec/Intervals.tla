------------------------------ MODULE Intervals ------------------------------
(***************************************************************************)
(* Interval sets with a capacity, as implemented by                        *)
(* qrlew::data_type::intervals::Intervals<B>.                              *)
(*                                                                         *)
(* The operators transcribe the index arithmetic of the implementation     *)
(* (position(..).unwrap_or(len), drain, insert, to_simple_superset) one    *)
(* for one; indices are 1-based here and 0-based there.  The state machine *)
(* at the bottom drives one interval set through every history of          *)
(* operations and carries, as ghost state, the exact set of points that    *)
(* an ideal (unbounded) set implementation would hold.                     *)
(***************************************************************************)
EXTENDS Integers, Sequences, FiniteSets, SequencesExt

CONSTANTS N,      \* the universe of bounds is 0..N-1 (order is all that matters)
          Cap     \* capacity: a list reaching Cap intervals collapses to its hull

Points == 0..(N-1)

(* ---- denotation -------------------------------------------------------- *)
Pts(s) == UNION { s[i][1]..s[i][2] : i \in 1..Len(s) }

WellFormedSeq(s) ==
    /\ \A i \in 1..Len(s) : s[i][1] <= s[i][2]
    /\ \A i \in 1..(Len(s)-1) : s[i][2] < s[i+1][1]

(* ---- transcription of the implementation ------------------------------- *)
\* position(P).unwrap_or(len), shifted to 1-based: first index satisfying P, else Len+1
FirstIdx(s, P(_)) == LET i == SelectInSeq(s, P) IN IF i = 0 THEN Len(s) + 1 ELSE i

\* into_interval
Hull(s) == IF Len(s) = 0 THEN << >> ELSE << <<s[1][1], s[Len(s)][2]>> >>

\* to_simple_superset
Simplify(s) == IF Len(s) < Cap THEN s ELSE Hull(s)

\* union_interval(min, max)
UnionInterval(s, lo, hi) ==
    LET mi  == FirstIdx(s, LAMBDA iv : lo <= iv[2])          \* min_index + 1
        ma  == FirstIdx(s, LAMBDA iv : hi <  iv[1])          \* max_index + 1
        nlo == IF mi <= Len(s) /\ s[mi][1] < lo THEN s[mi][1] ELSE lo
        nhi == IF ma > 1 /\ hi < s[ma-1][2] THEN s[ma-1][2] ELSE hi
    IN  Simplify(SubSeq(s, 1, mi-1) \o << <<nlo, nhi>> >> \o SubSeq(s, ma, Len(s)))

\* intersection_interval(min, max)
IntersectionInterval(s, lo, hi) ==
    LET mi  == FirstIdx(s, LAMBDA iv : lo <= iv[2])
        ma  == FirstIdx(s, LAMBDA iv : hi <  iv[1])
        nlo == IF mi <= Len(s) /\ lo < s[mi][1] THEN s[mi][1] ELSE lo
        nhi == IF ma > 1 /\ s[ma-1][2] < hi THEN s[ma-1][2] ELSE hi
        s1  == IF mi <= Len(s) THEN [s EXCEPT ![mi] = <<nlo, s[mi][2]>>] ELSE s
        s2  == IF ma > 1 THEN [s1 EXCEPT ![ma-1] = <<s1[ma-1][1], nhi>>] ELSE s1
    IN  Simplify(SubSeq(s2, mi, ma-1))

\* union(self, other): the shorter operand is folded into the longer one
RECURSIVE FoldUnion(_, _, _)
FoldUnion(acc, o, i) == IF i > Len(o) THEN acc
                        ELSE FoldUnion(UnionInterval(acc, o[i][1], o[i][2]), o, i+1)
Union(s, o) == IF Len(o) <= Len(s) THEN FoldUnion(s, o, 1) ELSE FoldUnion(o, s, 1)

\* intersection(self, other): each interval of the shorter operand cuts the longer
\* one; the pieces are united starting from the empty set
RECURSIVE FoldInter(_, _, _, _)
FoldInter(acc, s, o, i) == IF i > Len(o) THEN acc
                           ELSE FoldInter(Union(acc, IntersectionInterval(s, o[i][1], o[i][2])), s, o, i+1)
Intersection(s, o) == IF Len(o) <= Len(s) THEN FoldInter(<< >>, s, o, 1) ELSE FoldInter(<< >>, o, s, 1)

\* is_subset_of: self /\ other == self, collapse included
IsSubsetOf(s, o) == Intersection(s, o) = s
\* contains(value): from_value(v).is_subset_of(self)
HasValue(s, v) == IsSubsetOf(UnionInterval(<< >>, v, v), s)

(* ---- all well formed values (operands of the binary operations) --------- *)
RECURSIVE WFFrom(_, _)
\* all well-formed lists of at most k intervals whose bounds are >= from
WFFrom(from, k) ==
    IF k = 0 \/ from > N-1 THEN { << >> }
    ELSE { << >> } \cup
         UNION { { << <<lo, hi>> >> \o rest : rest \in WFFrom(hi + 2, k - 1) }
                 : <<lo, hi>> \in { p \in (from..(N-1)) \X (from..(N-1)) : p[1] <= p[2] } }
\* NB: adjacent integer intervals [0,1][2,3] are *not* merged by the implementation
\* (bounds are only ordered, not discrete); allow them as operands as well
RECURSIVE WFAdj(_, _)
WFAdj(from, k) ==
    IF k = 0 \/ from > N-1 THEN { << >> }
    ELSE { << >> } \cup
         UNION { { << <<lo, hi>> >> \o rest : rest \in WFAdj(hi + 1, k - 1) }
                 : <<lo, hi>> \in { p \in (from..(N-1)) \X (from..(N-1)) : p[1] <= p[2] } }
\* (operators with a parameter, so that TLC does not evaluate them eagerly in trace
\* validation where N and Cap are large)
OperandsUpTo(k) == WFAdj(0, k)

(* ---- judges: what the property requires of one observed operation ------- *)
\* (evaluated on the model's own results when model checking, and on the
\*  implementation's results when validating observation records)
WithinCapacity(s) == Len(s) <= Cap
JudgeUnionInterval(pre, lo, hi, post) ==
    WellFormedSeq(post) /\ WithinCapacity(post) /\ (Pts(pre) \cup (lo..hi)) \subseteq Pts(post)
JudgeIntersectionInterval(pre, lo, hi, post) ==
    WellFormedSeq(post) /\ WithinCapacity(post) /\ (Pts(pre) \cap (lo..hi)) \subseteq Pts(post)
JudgeUnion(a, b, post) ==
    WellFormedSeq(post) /\ WithinCapacity(post) /\ (Pts(a) \cup Pts(b)) \subseteq Pts(post)
JudgeIntersection(a, b, post) ==
    WellFormedSeq(post) /\ WithinCapacity(post) /\ (Pts(a) \cap Pts(b)) \subseteq Pts(post)
JudgeSubset(a, b, answer) == answer => Pts(a) \subseteq Pts(b)
JudgeContains(a, v, answer) == answer <=> v \in Pts(a)

(* ---- state machine ------------------------------------------------------ *)
VARIABLES ivs,        \* the interval list
          pts,        \* ghost: the exact point set
          collapsed,  \* ghost: a simplification to the hull has lost exactness
          depth,      \* number of operations so far
          last        \* the last transition, for replay into the implementation
vars == <<ivs, pts, collapsed, depth, last>>

CONSTANT Depth

Init == ivs = << >> /\ pts = {} /\ collapsed = FALSE /\ depth = 0 /\ last = [op |-> "init"]

Step(op, r, p, rec) ==
    /\ depth < Depth
    /\ ivs' = r
    /\ pts' = p
    /\ collapsed' = (collapsed \/ Pts(r) # p)
    /\ depth' = depth + 1
    /\ last' = rec

DoUnionInterval == \E lo \in Points : \E hi \in lo..(N-1) :
    LET r == UnionInterval(ivs, lo, hi) IN
    Step("union_interval", r, pts \cup (lo..hi),
         [op |-> "union_interval", pre |-> ivs, lo |-> lo, hi |-> hi, post |-> r])

DoIntersectionInterval == \E lo \in Points : \E hi \in lo..(N-1) :
    LET r == IntersectionInterval(ivs, lo, hi) IN
    Step("intersection_interval", r, pts \cap (lo..hi),
         [op |-> "intersection_interval", pre |-> ivs, lo |-> lo, hi |-> hi, post |-> r])

DoUnion == \E o \in OperandsUpTo(Cap - 1) :
    LET r == Union(ivs, o) IN
    Step("union", r, pts \cup Pts(o), [op |-> "union", pre |-> ivs, other |-> o, post |-> r])

DoIntersection == \E o \in OperandsUpTo(Cap - 1) :
    LET r == Intersection(ivs, o) IN
    Step("intersection", r, pts \cap Pts(o), [op |-> "intersection", pre |-> ivs, other |-> o, post |-> r])

Next == DoUnionInterval \/ DoIntersectionInterval \/ DoUnion \/ DoIntersection
Spec == Init /\ [][Next]_vars

(* ---- invariants --------------------------------------------------------- *)
WellFormed  == WellFormedSeq(ivs) /\ Len(ivs) < Cap
NoPointLost == pts \subseteq Pts(ivs)
ExactUnderCapacity == ~collapsed => Pts(ivs) = pts
\* the answers of the query operations on the current state, against every operand
SubsetSound == \A o \in OperandsUpTo(Cap - 1) :
                  /\ JudgeSubset(ivs, o, IsSubsetOf(ivs, o))
                  /\ JudgeSubset(o, ivs, IsSubsetOf(o, ivs))
\* is_subset_of is exact as long as the intersection does not collapse and no two intervals touch: the points stand
\* for an ordered universe that may be dense (floats), so [0,1] is not included in {0} u {1} for the implementation
\* even though the two hold the same points of a discrete universe (sound, not complete: the property asks soundness)
NoAdjacent(s) == \A i \in 1..(Len(s) - 1) : s[i][2] + 1 < s[i + 1][1]
SubsetExact == \A o \in OperandsUpTo(Cap - 1) :
                  (Len(o) + Len(ivs) < Cap /\ NoAdjacent(o) /\ NoAdjacent(ivs)) => (IsSubsetOf(o, ivs) <=> Pts(o) \subseteq Pts(ivs))
ContainsExact == \A v \in Points : JudgeContains(ivs, v, HasValue(ivs, v))
ContainsOwn == \A v \in Points : HasValue(UnionInterval(<< >>, v, v), v)
\* the judges hold of the model's own transitions
LastJudged ==
    CASE last.op = "union_interval" -> JudgeUnionInterval(last.pre, last.lo, last.hi, last.post)
      [] last.op = "intersection_interval" -> JudgeIntersectionInterval(last.pre, last.lo, last.hi, last.post)
      [] last.op = "union" -> JudgeUnion(last.pre, last.other, last.post)
      [] last.op = "intersection" -> JudgeIntersection(last.pre, last.other, last.post)
      [] OTHER -> TRUE
=============================================================================
