--------------------------- MODULE Trace_Intervals ---------------------------
(***************************************************************************)
(* Validation of records observed on the real Intervals<B>:                *)
(*  - observation records produced by replaying TLC edges (independent     *)
(*    records, each with its own pre-state), and                           *)
(*  - recorded histories of the real object at its real capacity (chained  *)
(*    records: the pre-state of one is the post-state of the previous one).*)
(* Each record is one step.  The step evaluates the *judges* of            *)
(* Intervals.tla on the implementation's own results (a failed judge is a  *)
(* violation of the property) and compares the result with the model's     *)
(* transcription (a difference with passing judges is model drift).        *)
(***************************************************************************)
EXTENDS Integers, Sequences, FiniteSets, TLC, Json, IOUtils, SequencesExt

CONSTANTS N, Cap
VARIABLES l,        \* position in the trace
          ivs,      \* the implementation's current interval list (as observed)
          pts,      \* ghost: exact point set of the history
          bad       \* number of judge failures so far

I == INSTANCE Intervals WITH N <- N, Cap <- Cap, Depth <- 0,
                             ivs <- ivs, pts <- pts, collapsed <- FALSE, depth <- 0, last <- [op |-> "init"]

Rec == ndJsonDeserialize(IOEnv.TRACE)

ToPairs(s) == [i \in 1..Len(s) |-> <<s[i][1], s[i][2]>>]
Has(r, f) == f \in DOMAIN r

Fail(i, name) == PrintT(<<"JUDGE", i, name>>)
Drift(i, name) == PrintT(<<"DRIFT", i, name>>)

\* judges of one record; returns the set of names of failed judges
Failed(r, pre, post, exact) ==
    LET other == IF Has(r, "other") THEN ToPairs(r.other) ELSE << >>
        base  == IF r.op \in {"union_interval", "intersection_interval"}
                 THEN IF r.op = "union_interval"
                      THEN IF I!JudgeUnionInterval(pre, r.lo, r.hi, post) THEN {} ELSE {"UnionInterval"}
                      ELSE IF I!JudgeIntersectionInterval(pre, r.lo, r.hi, post) THEN {} ELSE {"IntersectionInterval"}
                 ELSE IF r.op = "union"
                      THEN IF I!JudgeUnion(pre, other, post) THEN {} ELSE {"Union"}
                      ELSE IF I!JudgeIntersection(pre, other, post) THEN {} ELSE {"Intersection"}
        wf    == IF r.wf /\ r.len <= Cap THEN {} ELSE {"WellFormedReal"}
        hist  == IF exact \subseteq I!Pts(post) THEN {} ELSE {"NoPointLost"}
        sub   == (IF Has(r, "sub_ab") /\ ~I!JudgeSubset(pre, other, r.sub_ab) THEN {"SubsetSound"} ELSE {})
                 \cup (IF Has(r, "sub_ba") /\ ~I!JudgeSubset(other, pre, r.sub_ba) THEN {"SubsetSound"} ELSE {})
                 \cup (IF Has(r, "sub_pre_post") /\ ~I!JudgeSubset(pre, post, r.sub_pre_post) THEN {"SubsetSound"} ELSE {})
                 \cup (IF Has(r, "sub_post_pre") /\ ~I!JudgeSubset(post, pre, r.sub_post_pre) THEN {"SubsetSound"} ELSE {})
        has   == (IF Has(r, "has") /\ \E v \in 1..Len(r.has) : ~I!JudgeContains(post, v-1, r.has[v])
                  THEN {"Contains"} ELSE {})
                 \cup (IF Has(r, "has_v") /\ ~I!JudgeContains(post, r.v, r.has_v) THEN {"Contains"} ELSE {})
                 \cup (IF Has(r, "own") /\ ~r.own THEN {"ContainsOwn"} ELSE {})
    IN base \cup wf \cup hist \cup sub \cup has

ModelPost(r, pre) ==
    CASE r.op = "union_interval" -> I!UnionInterval(pre, r.lo, r.hi)
      [] r.op = "intersection_interval" -> I!IntersectionInterval(pre, r.lo, r.hi)
      [] r.op = "union" -> I!Union(pre, ToPairs(r.other))
      [] r.op = "intersection" -> I!Intersection(pre, ToPairs(r.other))

ExactPts(r, base) ==
    CASE r.op = "union_interval" -> base \cup (r.lo..r.hi)
      [] r.op = "intersection_interval" -> base \cap (r.lo..r.hi)
      [] r.op = "union" -> base \cup I!Pts(ToPairs(r.other))
      [] r.op = "intersection" -> base \cap I!Pts(ToPairs(r.other))

Init == l = 1 /\ ivs = << >> /\ pts = {} /\ bad = 0

Step ==
    /\ l <= Len(Rec)
    /\ l' = l + 1
    /\ LET r == Rec[l] IN
       IF r.op = "reset" THEN ivs' = << >> /\ pts' = {} /\ bad' = bad
       ELSE IF r.op = "panic" THEN
            /\ Fail(l, "Panic") /\ ivs' = << >> /\ pts' = {} /\ bad' = bad + 1
       ELSE LET pre   == ToPairs(r.pre)
                post  == ToPairs(r.post)
                chain == Has(r, "chain") /\ r.chain
                base  == IF chain THEN pts ELSE I!Pts(pre)
                exact == ExactPts(r, base)
                fs0   == Failed(r, pre, post, exact)
                \* a chained record must continue from the state the previous one left
                fs    == IF chain /\ pre # ivs THEN fs0 \cup {"ChainBroken"} ELSE fs0
            IN /\ ivs' = post
               /\ pts' = exact
               /\ \A f \in fs : Fail(l, f)
               /\ bad' = bad + Cardinality(fs)
               /\ (post # ModelPost(r, pre) /\ ~r.inexact) => Drift(l, "post")

Spec == Init /\ [][Step]_<<l, ivs, pts, bad>>

\* the whole trace must be consumed
Accepted == IF TLCGet("stats").diameter - 1 = Len(Rec) THEN PrintT(<<"ACCEPTED", Len(Rec)>>)
            ELSE Print(<<"TRACE NOT CONSUMED, stopped at", TLCGet("stats").diameter>>, FALSE)
=============================================================================
