SPECIFICATION Spec
CONSTANTS
  N = 4
  MaxDeps = 2
  Cyclic = FALSE
INVARIANTS OnceEach DagNeverHalts DagAllVisited DagTopological DagRootLast DagAcceptReturns CycleStops Emit
PROPERTY Terminates
CHECK_DEADLOCK FALSE
