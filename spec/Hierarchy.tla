------------------------------ MODULE Hierarchy ------------------------------
(***************************************************************************)
(* The path map used for every name lookup (hierarchy.rs): a finite map    *)
(* from paths (sequences of components) to objects, looked up with a       *)
(* possibly partially qualified path.                                      *)
(*                                                                         *)
(* Lookup rule (C15): the entry with exactly that path if there is one,    *)
(* otherwise the single entry agreeing with the given path on every        *)
(* trailing component they both have, otherwise nothing.                   *)
(* (As in the code, the comparison stops at the shorter of the two: a      *)
(* *longer* given path also matches, and the empty path matches every      *)
(* entry.)                                                                 *)
(***************************************************************************)
EXTENDS Integers, Sequences, FiniteSets, TLC

CONSTANTS Alphabet, MaxLen, Objects
RECURSIVE PathsOfLen(_)
PathsOfLen(n) == IF n = 0 THEN { << >> } ELSE { Append(p, c) : p \in PathsOfLen(n - 1), c \in Alphabet }
Paths == UNION { PathsOfLen(n) : n \in 1..MaxLen }
LookupPaths == Paths \cup { << >> } \cup PathsOfLen(MaxLen + 1)

NONE == [found |-> FALSE]
Some(p, o) == [found |-> TRUE, path |-> p, obj |-> o]

\* trailing components both have agree (is_suffix_of: zip of the reversed sequences)
Min2(a, b) == IF a < b THEN a ELSE b
AgreeOnSuffix(p, q) == \A i \in 1..Min2(Len(p), Len(q)) : p[Len(p) + 1 - i] = q[Len(q) + 1 - i]
AgreeOnPrefix(p, q) == \A i \in 1..Min2(Len(p), Len(q)) : p[i] = q[i]

(* ---- declarative lookup --------------------------------------------------- *)
Lookup(h, p) ==
    IF p \in DOMAIN h THEN Some(p, h[p])
    ELSE LET cands == { q \in DOMAIN h : AgreeOnSuffix(p, q) }
         IN IF Cardinality(cands) = 1 THEN LET q == CHOOSE q \in cands : TRUE IN Some(q, h[q]) ELSE NONE

(* ---- the fold of the implementation (Zero / One / More over the entries in key order) ---- *)
\* lexicographic order of the BTreeMap keys
RECURSIVE LexLess(_, _)
LexLess(p, q) == IF p = << >> THEN q # << >>
                 ELSE IF q = << >> THEN FALSE
                 ELSE IF Head(p) = Head(q) THEN LexLess(Tail(p), Tail(q))
                 ELSE Head(p) < Head(q)
RECURSIVE SortedKeys(_)
SortedKeys(S) == IF S = {} THEN << >>
                 ELSE LET m == CHOOSE x \in S : \A y \in S \ {x} : LexLess(x, y) IN <<m>> \o SortedKeys(S \ {m})
RECURSIVE Fold(_, _, _, _, _)
\* state: "zero" | "one" | "more"
Fold(h, p, keys, st, cur) ==
    IF keys = << >> THEN (IF st = "one" THEN Some(cur, h[cur]) ELSE NONE)
    ELSE LET q == Head(keys) IN
         IF AgreeOnSuffix(p, q)
         THEN Fold(h, p, Tail(keys), IF st = "zero" THEN "one" ELSE "more", q)
         ELSE Fold(h, p, Tail(keys), st, cur)
FoldLookup(h, p) == IF p \in DOMAIN h THEN Some(p, h[p]) ELSE Fold(h, p, SortedKeys(DOMAIN h), "zero", << >>)

(* ---- other operations ------------------------------------------------------ *)
Prepend(h, head) == [q \in { head \o p : p \in DOMAIN h } |-> h[SubSeq(q, Len(head) + 1, Len(q))]]
Filter(h, prefix) == [q \in { p \in DOMAIN h : AgreeOnPrefix(prefix, p) } |-> h[q]]
With(h, p, o) == [q \in DOMAIN h \cup {p} |-> IF q = p THEN o ELSE h[q]]

(* ---- state machine ---------------------------------------------------------- *)
VARIABLES h, last
vars == <<h, last>>
Init == h = [p \in {} |-> 0] /\ last = "init"
Insert == \E p \in Paths : \E o \in Objects : p \notin DOMAIN h /\ h' = With(h, p, o) /\ last' = "insert"
DoPrepend == \E c \in Alphabet : (\A p \in DOMAIN h : Len(p) < MaxLen) /\ h # [p \in {} |-> 0] /\ h' = Prepend(h, <<c>>) /\ last' = "prepend"
DoFilter == \E c \in Alphabet : h' = Filter(h, <<c>>) /\ h' # h /\ last' = "filter"
Next == Insert \/ DoPrepend \/ DoFilter
Spec == Init /\ [][Next]_vars

\* the implementation's fold computes the rule
FoldIsRule == \A p \in LookupPaths : FoldLookup(h, p) = Lookup(h, p)
\* an exact entry is always found as itself; ambiguity yields nothing, never one of the candidates
ExactFirst == \A p \in DOMAIN h : Lookup(h, p) = Some(p, h[p])
NeverArbitrary == \A p \in LookupPaths :
                     (p \notin DOMAIN h /\ Cardinality({ q \in DOMAIN h : AgreeOnSuffix(p, q) }) > 1) => Lookup(h, p) = NONE
=============================================================================
