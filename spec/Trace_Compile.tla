--------------------------- MODULE Trace_Compile ---------------------------
(***************************************************************************)
(* Validation of recorded compilation traces against Compile.tla: one      *)
(* record per stage event {case, stage, outcome}.  "begin" starts a case,  *)
(* "end" closes it.  An event whose outcome is not an action of Compile    *)
(* (panic), a case that never reaches "end" (the process aborted or the    *)
(* stage did not return: the driver inserts outcome "abort" / "timeout")   *)
(* and a stage run out of order are judged failures.                       *)
(***************************************************************************)
EXTENDS Integers, Sequences, FiniteSets, TLC, Json, IOUtils

VARIABLES l, done, bad
Rec == ndJsonDeserialize(IOEnv.TRACE)
CP == INSTANCE Compile WITH Forms <- {}, Exprs <- {}, ASchemas <- {}, BSchemas <- {}, Sizes <- {}, Params <- {}, Unsupported <- {},
                            case <- [kind |-> "supported"], done <- done

Init == l = 1 /\ done = [s \in {} |-> "ok"] /\ bad = 0
Fail(name) == PrintT(<<"JUDGE", l, name>>)
Step == /\ l <= Len(Rec)
        /\ l' = l + 1
        /\ LET r == Rec[l] IN
           IF r.stage = "begin" THEN done' = [s \in {} |-> "ok"] /\ bad' = bad
           ELSE IF r.stage = "end" THEN
                /\ done' = done /\ bad' = bad
                /\ (r.unsupported /\ "build" \in DOMAIN done /\ done["build"] = "ok") => PrintT(<<"NOTE", l, "unsupported construct accepted">>)
           ELSE IF r.outcome \notin CP!Outcomes THEN
                \* no action of the specification produces this outcome
                /\ Fail(IF r.outcome = "panic" THEN "NoPanic" ELSE IF r.outcome = "timeout" THEN "Terminates" ELSE "NoAbort")
                /\ done' = done /\ bad' = bad + 1
           ELSE IF r.stage \in {"tables", "harness"} THEN done' = done /\ bad' = bad
           ELSE IF CP!CanRun(r.stage) THEN
                /\ done' = [x \in DOMAIN done \cup {r.stage} |-> IF x = r.stage THEN r.outcome ELSE done[x]] /\ bad' = bad
           ELSE /\ Fail("StageOrder") /\ done' = done /\ bad' = bad + 1
Spec == Init /\ [][Step]_<<l, done, bad>>
Accepted == IF TLCGet("stats").diameter - 1 = Len(Rec) THEN PrintT(<<"ACCEPTED", Len(Rec)>>)
            ELSE Print(<<"TRACE NOT CONSUMED, stopped at", TLCGet("stats").diameter>>, FALSE)
=============================================================================
