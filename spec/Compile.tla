------------------------------- MODULE Compile -------------------------------
(***************************************************************************)
(* The compilation pipeline of one query as a stage machine.  Every stage  *)
(* ends in Ok or Err; there is no action for a panic, an abort or a stage  *)
(* that never returns: a recorded trace containing one is not a behaviour  *)
(* of this specification (C18).                                            *)
(*                                                                         *)
(*   parse -> build -> schema -> render                                    *)
(*                  \-> pup -> render_pup                                  *)
(*                  \-> dp  -> render_dp                                   *)
(* A stage only runs when the stage it depends on ended in Ok.             *)
(*                                                                         *)
(* The case space (what to compile) is the product of query forms,         *)
(* expression templates, schema classes and privacy parameters below; the  *)
(* driver maps each name to SQL text and table declarations.               *)
(***************************************************************************)
EXTENDS Integers, Sequences, FiniteSets, TLC

CONSTANTS Forms, Exprs, ASchemas, BSchemas, Sizes, Params, Unsupported

Stages == <<"parse", "build", "schema", "render", "pup", "render_pup", "dp", "render_dp">>
DependsOn(s) == CASE s = "parse" -> "none" [] s = "build" -> "parse" [] s = "schema" -> "build" [] s = "render" -> "build"
                  [] s = "pup" -> "build" [] s = "render_pup" -> "pup" [] s = "dp" -> "build" [] s = "render_dp" -> "dp"
Outcomes == {"ok", "err"}

VARIABLES case, done      \* done: stage -> outcome of the stages run so far
vars == <<case, done>>

Cases == [kind : {"supported"}, form : Forms, expr : Exprs, a : ASchemas, b : BSchemas, size : Sizes, params : Params]
         \cup [kind : {"unsupported"}, construct : Unsupported]
Init == case \in Cases /\ done = [s \in {} |-> "ok"]

CanRun(s) == /\ s \notin DOMAIN done
             /\ (DependsOn(s) = "none" \/ (DependsOn(s) \in DOMAIN done /\ done[DependsOn(s)] = "ok"))
Run(s, o) == /\ CanRun(s) /\ o \in Outcomes
             /\ done' = [x \in DOMAIN done \cup {s} |-> IF x = s THEN o ELSE done[x]]
             /\ UNCHANGED case
Next == \E i \in 1..Len(Stages) : \E o \in Outcomes : Run(Stages[i], o)
Spec == Init /\ [][Next]_vars

\* an unsupported construct is refused by the parser or by the relation builder
Refused == case.kind = "unsupported" => (("build" \in DOMAIN done) => done["build"] = "err")
\* dependent stages never run after a failure
Ordered == \A s \in DOMAIN done : DependsOn(s) = "none" \/ (DependsOn(s) \in DOMAIN done /\ done[DependsOn(s)] = "ok")
=============================================================================
