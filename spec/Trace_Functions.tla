--------------------------- MODULE Trace_Functions ---------------------------
(***************************************************************************)
(* Judges of range propagation (C06) on the real library: one record per   *)
(* (expression, column types, embedding) with the outcome and the decoded  *)
(* image, and, for every row of universe points, the outcome of `value`    *)
(* and the value y (rank-encoded with the bounds of the image).            *)
(*   ImageSucceeds   some row evaluates  =>  range propagation succeeded   *)
(*   ImageContains   y evaluates  =>  y is in the image: decided on the    *)
(*                   decoded interval set (NULL needs an optional image)   *)
(*                   when image and value are of comparable primitive      *)
(*                   kinds, by the library's own membership otherwise      *)
(***************************************************************************)
EXTENDS Integers, Sequences, FiniteSets, TLC, Json, IOUtils
VARIABLES l, bad
Rec == ndJsonDeserialize(IOEnv.TRACE)
InIvs(r, ivs) == \E i \in 1..Len(ivs) : ivs[i][1] <= r /\ r <= ivs[i][2]
Contained(rec, p) ==
    IF p.structural
    THEN IF p.yk = 0 THEN rec.topt ELSE InIvs(p.y, rec.ivs)
    ELSE p.lib
Failures(r) ==
    (IF r.image # "ok" /\ \E i \in 1..Len(r.points) : r.points[i].value = "ok" THEN {"ImageSucceeds"} ELSE {})
    \cup (IF r.image = "ok" /\ \E i \in 1..Len(r.points) : r.points[i].value = "ok" /\ ~Contained(r, r.points[i]) THEN {"ImageContains"} ELSE {})
Init == l = 1 /\ bad = 0
Step == /\ l <= Len(Rec) /\ l' = l + 1
        /\ LET fs == Failures(Rec[l]) IN (\A f \in fs : PrintT(<<"JUDGE", l, f>>)) /\ bad' = bad + Cardinality(fs)
Spec == Init /\ [][Step]_<<l, bad>>
Accepted == IF TLCGet("stats").diameter - 1 = Len(Rec) THEN PrintT(<<"ACCEPTED", Len(Rec)>>)
            ELSE Print(<<"TRACE NOT CONSUMED, stopped at", TLCGet("stats").diameter>>, FALSE)
=============================================================================
