----------------------------- MODULE Trace_Unique -----------------------------
(***************************************************************************)
(* Judge of C14 on projections: a record per (expression over one UNIQUE   *)
(* column, column type, embedding) with the constraint the real Map gives  *)
(* the projected column and the rank-encoded value of the expression on    *)
(* every universe point of the column (the inputs are pairwise distinct,   *)
(* as the UNIQUE constraint says).                                         *)
(*   UniqueKeptOnlyIfInjective   the projected column is flagged UNIQUE => *)
(*                               its non-null values are pairwise distinct *)
(***************************************************************************)
EXTENDS Integers, Sequences, FiniteSets, TLC, Json, IOUtils
VARIABLES l, bad
Rec == ndJsonDeserialize(IOEnv.TRACE)
\* ys: sequence of [kind, rank, frac] cells; kind 0 is NULL / no value
Failures(r) ==
    IF r.unique_kept /\ \E i, j \in 1..Len(r.ys) : i < j /\ r.ys[i][1] # 0 /\ r.ys[i] = r.ys[j]
    THEN {"UniqueKeptOnlyIfInjective"} ELSE {}
Init == l = 1 /\ bad = 0
Step == /\ l <= Len(Rec) /\ l' = l + 1
        /\ LET fs == Failures(Rec[l]) IN (\A f \in fs : PrintT(<<"JUDGE", l, f>>)) /\ bad' = bad + Cardinality(fs)
Spec == Init /\ [][Step]_<<l, bad>>
Accepted == IF TLCGet("stats").diameter - 1 = Len(Rec) THEN PrintT(<<"ACCEPTED", Len(Rec)>>)
            ELSE Print(<<"TRACE NOT CONSUMED, stopped at", TLCGet("stats").diameter>>, FALSE)
=============================================================================
