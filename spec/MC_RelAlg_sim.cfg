CONSTANTS
  Sample = TRUE
  MaxRows = 3
  MaxSteps = 5
  IntVals = {0, 1, 2}
  TextVals = {100, 101, 102}
SPECIFICATION MCSpec
INVARIANTS WellTyped
CHECK_DEADLOCK FALSE
