---------------------------- MODULE MC_DPPipeline ----------------------------
(* TLC wrapper: one REPLAY line per finished (configuration, database) state, with what the model
   predicts for it: released keys under the drawn order / noise / threshold, partial sums and squared
   norms per unit, squared clip bounds, whether clipping is active. *)
EXTENDS DPPipeline, Json

MCNULL == -9999
Pred == [m \in MeasuresOf(cfg.agg) |->
            [c2 |-> C2(m),
             n2 |-> [u \in Units |-> N2(J, released, m, u)],
             total |-> [g \in released |-> Total(J, m, g)]]]
EmitCurrent == Done => PrintT(<<"REPLAY", ToJson([cfg |-> cfg, db |-> db, released |-> released, order |-> order,
                                                    noise |-> noise, tau |-> tau, active |-> Active(J, released), pred |-> Pred])>>)
MCNext == EmitCurrent /\ Next
MCSpec == Init /\ [][MCNext]_vars
=============================================================================
