SPECIFICATION Spec
INVARIANTS EveryAggregateHasAPart BudgetFits SplitsPartition Emit
CHECK_DEADLOCK FALSE
