--------------------------- MODULE RewritingRules ---------------------------
(***************************************************************************)
(* The rewriting search of qrlew (rewriting/rewriting_rule.rs,             *)
(* rewriting/mod.rs) as a state machine over one relation tree:            *)
(*                                                                         *)
(*   SetRules(n)   the rule table attaches candidate rules to node n       *)
(*   Eliminate(n)  bottom-up, drop the rules whose inputs no child offers  *)
(*   Select(n)     bottom-up, enumerate every consistent choice of one     *)
(*                 rule per node (cartesian product over the children)     *)
(*   FilterRoot    keep the derivations whose root label the entry point   *)
(*                 accepts                                                 *)
(*   ArgMax        pick the best score (the last one among equals, as      *)
(*                 Iterator::max_by does) or report `unreachable`          *)
(*                                                                         *)
(* A rule is [ins |-> sequence of labels, out |-> label].  Labels:         *)
(* Priv, SD, PUP, DP, Pubd, Pub.                                           *)
(*                                                                         *)
(* The second half gives every label a meaning (the *exposure* of          *)
(* protected rows) and checks that each rule, applied to inputs whose      *)
(* labels are sound, builds a relation whose label is sound (C02).         *)
(***************************************************************************)
EXTENDS Integers, Sequences, FiniteSets, SequencesExt

Property == {"Priv", "SD", "PUP", "DP", "Pubd", "Pub"}
Kind == {"TableProt", "TablePub", "Values", "Map", "ReduceDp", "ReduceNoDp", "Join", "Set"}
Arity(k) == CASE k \in {"TableProt", "TablePub", "Values"} -> 0
              [] k \in {"Map", "ReduceDp", "ReduceNoDp"} -> 1
              [] OTHER -> 2

R(ins, out) == [ins |-> ins, out |-> out]

(* ---- the rule table (RewritingRulesSetter), in the order of the code ----- *)
RuleTable(kind, sd, strategy) ==
    CASE kind = "TableProt" -> << R(<< >>, "Priv"), R(<< >>, "PUP") >> \o (IF sd THEN << R(<< >>, "SD") >> ELSE << >>)
      [] kind = "TablePub"  -> << R(<< >>, "Pub") >> \o (IF sd THEN << R(<< >>, "SD") >> ELSE << >>)
      [] kind = "Values"    -> << R(<< >>, "Pub") >> \o (IF sd THEN << R(<< >>, "SD") >> ELSE << >>)
      [] kind = "Map" ->
            << R(<<"Pub">>, "Pub"), R(<<"Pubd">>, "Pubd"), R(<<"DP">>, "Pubd"), R(<<"PUP">>, "PUP") >>
            \o (IF sd THEN << R(<<"SD">>, "SD") >> ELSE << >>)
      [] kind \in {"ReduceDp", "ReduceNoDp"} ->
            << R(<<"Pub">>, "Pub"), R(<<"Pubd">>, "Pubd") >>
            \o (IF sd THEN << R(<<"SD">>, "SD") >> ELSE << >>)
            \o (IF strategy = "Hard" THEN << R(<<"PUP">>, "PUP") >> ELSE << >>)
            \o (IF kind = "ReduceDp" THEN << R(<<"PUP">>, "DP") >> ELSE << >>)
      [] kind = "Join" ->
            << R(<<"Pub", "Pub">>, "Pub"), R(<<"Pubd", "Pubd">>, "Pubd"),
               R(<<"Pubd", "PUP">>, "PUP"), R(<<"DP", "PUP">>, "PUP"), R(<<"PUP", "Pubd">>, "PUP"),
               R(<<"Pub", "PUP">>, "PUP"), R(<<"PUP", "Pub">>, "PUP"), R(<<"PUP", "DP">>, "PUP") >>
            \o (IF sd THEN << R(<<"SD", "SD">>, "SD") >> ELSE << >>)
            \o (IF strategy = "Hard" THEN << R(<<"PUP", "PUP">>, "PUP") >> ELSE << >>)
      [] kind = "Set" ->
            << R(<<"Pub", "Pub">>, "Pub"), R(<<"Pubd", "Pubd">>, "Pubd"), R(<<"PUP", "PUP">>, "PUP") >>
            \o (IF sd THEN << R(<<"SD", "SD">>, "SD") >> ELSE << >>)

\* labels the two public entry points accept at the root
Acceptable(entry) == IF entry = "pup" THEN {"Pub", "PUP"} ELSE {"Pub", "Pubd", "DP", "SD"}

\* Score visitor: one weight per node label, summed over the derivation
Weight(p) == CASE p = "SD" -> 1 [] p = "PUP" -> 2 [] p = "DP" -> 5 [] p = "Pubd" -> 1 [] p = "Pub" -> 10 [] OTHER -> 0

(* ---- trees ----------------------------------------------------------------- *)
\* a tree is a sequence of nodes, children before parents; node = [kind, kids]; the root is last
Leaf(k) == << [kind |-> k, kids |-> << >>] >>
Shift(t, d) == [i \in 1..Len(t) |-> [kind |-> t[i].kind, kids |-> [j \in 1..Len(t[i].kids) |-> t[i].kids[j] + d]]]
Unary(k, t) == t \o << [kind |-> k, kids |-> <<Len(t)>>] >>
Binary(k, l, r) == l \o Shift(r, Len(l)) \o << [kind |-> k, kids |-> <<Len(l), Len(l) + Len(r)>>] >>

RECURSIVE TreesOfSize(_)
TreesOfSize(n) ==
    IF n = 1 THEN { Leaf(k) : k \in {"TableProt", "TablePub", "Values"} }
    ELSE { Unary(k, t) : k \in {"Map", "ReduceDp", "ReduceNoDp"}, t \in TreesOfSize(n - 1) }
         \cup UNION { { Binary(k, l, r) : k \in {"Join", "Set"}, l \in TreesOfSize(i), r \in TreesOfSize(n - 1 - i) }
                      : i \in 1..(n - 2) }

(* ---- declarative meaning: consistent derivations ---------------------------- *)
\* a derivation of node n: [rule, kids (derivations of the children)]
Outs(rs) == { rs[i].out : i \in 1..Len(rs) }
RECURSIVE Derivs(_, _, _)
\* all consistent derivations of node n, given a rule sequence per node, in the order the code produces them:
\* children combinations in row-major order (left varies slowest), then the rules of the node in table order
Derivs(tree, rules, n) ==
    LET node == tree[n]
        a == Len(node.kids)
    IN IF a = 0 THEN [i \in 1..Len(rules[n]) |-> [rule |-> rules[n][i], kids |-> << >>]]
       ELSE IF a = 1 THEN
            LET ds == Derivs(tree, rules, node.kids[1])
                per(d) == LET ok == SelectSeq(rules[n], LAMBDA r : r.ins[1] = d.rule.out)
                          IN [i \in 1..Len(ok) |-> [rule |-> ok[i], kids |-> <<d>>]]
            IN FlattenSeq([i \in 1..Len(ds) |-> per(ds[i])])
       ELSE LET ls == Derivs(tree, rules, node.kids[1])
                rs == Derivs(tree, rules, node.kids[2])
                per(l, r) == LET ok == SelectSeq(rules[n], LAMBDA x : x.ins[1] = l.rule.out /\ x.ins[2] = r.rule.out)
                             IN [i \in 1..Len(ok) |-> [rule |-> ok[i], kids |-> <<l, r>>]]
            IN FlattenSeq([i \in 1..Len(ls) |-> FlattenSeq([j \in 1..Len(rs) |-> per(ls[i], rs[j])])])

RECURSIVE ScoreOf(_)
ScoreOf(d) == Weight(d.rule.out) + (IF Len(d.kids) = 0 THEN 0 ELSE IF Len(d.kids) = 1 THEN ScoreOf(d.kids[1])
                                    ELSE ScoreOf(d.kids[1]) + ScoreOf(d.kids[2]))

\* a derivation is well typed: every rule takes exactly the labels its children produce
RECURSIVE WellTyped(_)
WellTyped(d) == /\ Len(d.rule.ins) = Len(d.kids)
                /\ \A i \in 1..Len(d.kids) : d.rule.ins[i] = d.kids[i].rule.out /\ WellTyped(d.kids[i])

\* max_by: index of the last maximal element (0 when empty)
ArgMaxLast(scores) ==
    IF scores = << >> THEN 0
    ELSE CHOOSE i \in 1..Len(scores) :
            /\ \A j \in 1..Len(scores) : scores[j] <= scores[i]
            /\ \A j \in (i+1)..Len(scores) : scores[j] < scores[i]

(* ---- the state machine ------------------------------------------------------- *)
CONSTANT MaxNodes
VARIABLES tree, sd, strategy, entry,   \* the case
          phase, at,                   \* "set" | "elim" | "select" | "root" | "argmax" | "done"; next node
          rules,                       \* node -> sequence of rules
          set0,                        \* the rule sets as first attached (before elimination)
          derivs,                      \* node -> sequence of derivations
          accepted, outcome            \* root derivations accepted; "ok" / "unreachable" and the chosen one
vars == <<tree, sd, strategy, entry, phase, at, rules, set0, derivs, accepted, outcome>>

Cases == UNION { TreesOfSize(n) : n \in 1..MaxNodes }
Init == /\ tree \in Cases /\ sd \in BOOLEAN /\ strategy \in {"Soft", "Hard"} /\ entry \in {"pup", "dp"}
        \* the differentially-private entry point always uses the hard strategy
        /\ (entry = "dp" => strategy = "Hard")
        /\ phase = "set" /\ at = 1
        /\ rules = [n \in 1..Len(tree) |-> << >>] /\ set0 = rules
        /\ derivs = [n \in 1..Len(tree) |-> << >>]
        /\ accepted = << >> /\ outcome = [k |-> "none"]

Advance(next) == IF at < Len(tree) THEN at' = at + 1 /\ phase' = phase ELSE at' = 1 /\ phase' = next

SetRules == /\ phase = "set"
            /\ rules' = [rules EXCEPT ![at] = RuleTable(tree[at].kind, sd, strategy)]
            /\ set0' = rules'
            /\ Advance("elim")
            /\ UNCHANGED <<tree, sd, strategy, entry, derivs, accepted, outcome>>

Eliminate == /\ phase = "elim"
             /\ LET kids == tree[at].kids
                    keep(r) == \A i \in 1..Len(kids) : r.ins[i] \in Outs(rules[kids[i]])
                IN rules' = [rules EXCEPT ![at] = SelectSeq(@, keep)]
             /\ Advance("select")
             /\ UNCHANGED <<tree, sd, strategy, entry, set0, derivs, accepted, outcome>>

Select == /\ phase = "select"
          /\ LET node == tree[at]
                 a == Len(node.kids)
                 new == IF a = 0 THEN [i \in 1..Len(rules[at]) |-> [rule |-> rules[at][i], kids |-> << >>]]
                        ELSE IF a = 1 THEN
                             LET ds == derivs[node.kids[1]]
                                 per(d) == LET ok == SelectSeq(rules[at], LAMBDA r : r.ins[1] = d.rule.out)
                                           IN [i \in 1..Len(ok) |-> [rule |-> ok[i], kids |-> <<d>>]]
                             IN FlattenSeq([i \in 1..Len(ds) |-> per(ds[i])])
                        ELSE LET ls == derivs[node.kids[1]]
                                 rs == derivs[node.kids[2]]
                                 per(l, r) == LET ok == SelectSeq(rules[at], LAMBDA x : x.ins[1] = l.rule.out /\ x.ins[2] = r.rule.out)
                                              IN [i \in 1..Len(ok) |-> [rule |-> ok[i], kids |-> <<l, r>>]]
                             IN FlattenSeq([i \in 1..Len(ls) |-> FlattenSeq([j \in 1..Len(rs) |-> per(ls[i], rs[j])])])
             IN derivs' = [derivs EXCEPT ![at] = new]
          /\ Advance("root")
          /\ UNCHANGED <<tree, sd, strategy, entry, rules, set0, accepted, outcome>>

FilterRoot == /\ phase = "root"
              /\ accepted' = SelectSeq(derivs[Len(tree)], LAMBDA d : d.rule.out \in Acceptable(entry))
              /\ phase' = "argmax"
              /\ UNCHANGED <<tree, sd, strategy, entry, at, rules, set0, derivs, outcome>>

ArgMax == /\ phase = "argmax"
          /\ LET scores == [i \in 1..Len(accepted) |-> ScoreOf(accepted[i])]
                 i == ArgMaxLast(scores)
             IN outcome' = IF i = 0 THEN [k |-> "unreachable"] ELSE [k |-> "ok", chosen |-> i, score |-> scores[i]]
          /\ phase' = "done"
          /\ UNCHANGED <<tree, sd, strategy, entry, at, rules, set0, derivs, accepted>>

Next == SetRules \/ Eliminate \/ Select \/ FilterRoot \/ ArgMax
Spec == Init /\ [][Next]_vars

(* ---- C13 on the model ---------------------------------------------------------- *)
Done == phase = "done"
\* the declarative set of derivations: from the rule table as attached, no elimination
AllDerivs == Derivs(tree, set0, Len(tree))
AcceptableDerivs == SelectSeq(AllDerivs, LAMBDA d : d.rule.out \in Acceptable(entry))
\* elimination loses nothing and selection enumerates exactly the consistent derivations, in the same order
SelectIsConsistent == Done => derivs[Len(tree)] = AllDerivs
EveryDerivationWellTyped == Done => \A i \in 1..Len(derivs[Len(tree)]) : WellTyped(derivs[Len(tree)][i])
UnreachableIffEmpty == Done => (outcome.k = "unreachable" <=> AcceptableDerivs = << >>)
ChosenIsArgMax == (Done /\ outcome.k = "ok") =>
                     \A i \in 1..Len(AcceptableDerivs) : ScoreOf(AcceptableDerivs[i]) <= outcome.score
\* elimination may keep rules no full derivation uses (it only looks downwards), never the converse
RECURSIVE RulesUsed(_, _)
RulesUsed(d, n) == {<<n, d.rule>>} \cup UNION { RulesUsed(d.kids[i], tree[n].kids[i]) : i \in 1..Len(d.kids) }
ElimComplete == Done => \A i \in 1..Len(AllDerivs) :
                           \A p \in RulesUsed(AllDerivs[i], Len(tree)) : \E j \in 1..Len(rules[p[1]]) : rules[p[1]][j] = p[2]

(* ---- C02: what the labels mean, and that every rule preserves the meaning ------ *)
\* Exposure of protected rows in the relation a rewriting step builds:
\*   Clean   no protected table below
\*   Synth   only synthetic replacements of tables below
\*   Noised  protected rows reach the output only through differentially-private aggregations
\*   Tracked raw protected rows, each carrying its privacy unit (PU columns present)
\*   Raw     raw protected rows
Exposure == {"Clean", "Synth", "Noised", "Tracked", "Raw"}
Rank(e) == CASE e = "Clean" -> 0 [] e = "Synth" -> 1 [] e = "Noised" -> 2 [] e = "Tracked" -> 3 [] e = "Raw" -> 4
Worst(a, b) == IF Rank(a) >= Rank(b) THEN a ELSE b

\* a label is sound for an exposure: what the label promises is at least what the relation is
LabelSound(label, exp) ==
    CASE label = "Pub"  -> exp = "Clean"
      [] label = "SD"   -> Rank(exp) <= Rank("Synth")
      [] label = "Pubd" -> Rank(exp) <= Rank("Noised")
      [] label = "DP"   -> Rank(exp) <= Rank("Noised")
      [] label = "PUP"  -> Rank(exp) <= Rank("Tracked")
      [] label = "Priv" -> TRUE

\* what the Rewriter builds for (kind, rule) from inputs of the given exposures (its match arms;
\* `pass` is the default arm: the same operator on the rewritten inputs)
Built(kind, rule, exps) ==
    LET pass == IF Len(exps) = 0 THEN "Clean" ELSE IF Len(exps) = 1 THEN exps[1] ELSE Worst(exps[1], exps[2]) IN
    CASE kind = "TableProt" /\ rule.out = "SD"  -> "Synth"
      [] kind = "TableProt" /\ rule.out = "PUP" -> "Tracked"
      [] kind = "TableProt" -> "Raw"
      [] kind \in {"TablePub", "Values"} /\ rule.out = "SD" -> "Synth"
      [] kind \in {"TablePub", "Values"} -> "Clean"
      \* the differentially-private arm: tracked rows only leave through noised aggregates
      [] kind = "ReduceDp" /\ rule.ins = <<"PUP">> /\ rule.out = "DP" ->
            IF Rank(exps[1]) > Rank("Tracked") THEN "Raw"
            ELSE IF Rank(exps[1]) >= Rank("Noised") THEN "Noised" ELSE exps[1]
      \* tracking arms keep the PU columns: Tracked stays Tracked
      [] OTHER -> pass

\* the finite local obligation: for every kind, every rule a node of that kind may carry, every
\* combination of input exposures that are sound for the rule's input labels, the label of the rule
\* is sound for what is built
LocalRuleSound(kind, rule) ==
    LET n == Len(rule.ins)
        ExpSeqs == IF n = 0 THEN { << >> } ELSE IF n = 1 THEN { <<e>> : e \in Exposure }
                   ELSE { <<e1, e2>> : e1 \in Exposure, e2 \in Exposure }
    IN /\ n = Arity(kind)
       /\ \A es \in ExpSeqs : (\A i \in 1..n : LabelSound(rule.ins[i], es[i])) => LabelSound(rule.out, Built(kind, rule, es))

\* all rules of the table are locally sound: with structural induction this gives DerivationSound for trees of any size
RuleTableSound == \A kind \in Kind : \A s \in BOOLEAN : \A st \in {"Soft", "Hard"} :
                     LET t == RuleTable(kind, s, st) IN \A i \in 1..Len(t) : LocalRuleSound(kind, t[i])

\* cross-check of the induction on the explored trees: exposure of a derivation, computed bottom-up
RECURSIVE ExposureOf(_, _)
ExposureOf(d, n) == Built(tree[n].kind, d.rule, [i \in 1..Len(d.kids) |-> ExposureOf(d.kids[i], tree[n].kids[i])])
DerivationSound == Done => \A i \in 1..Len(derivs[Len(tree)]) :
                              LabelSound(derivs[Len(tree)][i].rule.out, ExposureOf(derivs[Len(tree)][i], Len(tree)))
ProtectedNeverPub == \A n \in 1..Len(tree) : tree[n].kind = "TableProt" => \A i \in 1..Len(rules[n]) : rules[n][i].out # "Pub"
\* what the differentially-private entry point returns never exposes raw or tracked rows
RootNeverExposed == (Done /\ entry = "dp" /\ outcome.k = "ok") =>
                       Rank(ExposureOf(accepted[outcome.chosen], Len(tree))) <= Rank("Noised")
=============================================================================
