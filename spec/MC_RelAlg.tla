----------------------------- MODULE MC_RelAlg -----------------------------
(* TLC wrapper for QueryShapes: emits one REPLAY line per (query, database) state. *)
EXTENDS QueryShapes, Json

\* One REPLAY line per *visited* state: printed when the successors of the state are computed
\* (in simulation mode an invariant would be evaluated on every candidate successor instead).
EmitCurrent == (q.k # "none") => PrintT(<<"REPLAY", ToJson([q |-> q, db |-> db, res |-> Result, last |-> last, steps |-> steps])>>)
MCNext == EmitCurrent /\ Next
MCSpec == Init /\ [][MCNext]_vars
\* `steps` and `last` are history: the future of a state only depends on (q, db, target)
View == <<q, db, target>>
=============================================================================
