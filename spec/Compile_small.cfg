CONSTANTS
  Forms = {"select"}
  Exprs = {"a+b"}
  ASchemas = {"small"}
  BSchemas = {"opt_int"}
  Sizes = {"exact"}
  Params = {"default"}
  Unsupported = {"no_from"}
SPECIFICATION Spec
INVARIANTS Ordered
CHECK_DEADLOCK FALSE
