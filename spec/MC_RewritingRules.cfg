CONSTANTS
  MaxNodes = 4
SPECIFICATION Spec
INVARIANTS SelectIsConsistent EveryDerivationWellTyped UnreachableIffEmpty ChosenIsArgMax ElimComplete DerivationSound ProtectedNeverPub RootNeverExposed Emit
CHECK_DEADLOCK FALSE
