SPECIFICATION Spec
CONSTANTS
  MaxLen = 3
INVARIANTS NeverError RoundTrip Emit
PROPERTY Terminates
CHECK_DEADLOCK FALSE
