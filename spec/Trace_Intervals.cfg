CONSTANTS
  N = 6
  Cap = 3
SPECIFICATION Spec
POSTCONDITION Accepted
CHECK_DEADLOCK FALSE
