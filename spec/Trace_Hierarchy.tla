--------------------------- MODULE Trace_Hierarchy ---------------------------
(***************************************************************************)
(* Judges of the real path map (harness hi-replay) against the lookup rule *)
(* of Hierarchy.tla: for a map and every lookup path, the real answer of   *)
(* get_key_value (and get) is the rule's; filter and prepend give the maps *)
(* the specification defines.                                              *)
(***************************************************************************)
EXTENDS Integers, Sequences, FiniteSets, TLC, Json, IOUtils

CONSTANTS Alphabet, MaxLen, Objects
VARIABLES l, bad
Rec == ndJsonDeserialize(IOEnv.TRACE)
H == INSTANCE Hierarchy WITH h <- [p \in {} |-> 0], last <- "init"

ToMap(es) == [p \in { es[i].path : i \in 1..Len(es) } |-> (CHOOSE i \in 1..Len(es) : es[i].path = p)]
MapOf(es) == LET idx == ToMap(es) IN [p \in DOMAIN idx |-> es[idx[p]].obj]
Real(x) == IF x.found THEN [found |-> TRUE, path |-> x.path, obj |-> x.obj] ELSE [found |-> FALSE]

Failures(r) ==
    IF r.panic THEN {"NoPanic"} ELSE
    LET m == MapOf(r.entries) IN
    (IF \E i \in 1..Len(r.lookups) : Real(r.lookups[i]) # H!Lookup(m, r.lookups[i].p) THEN {"LookupRule"} ELSE {})
    \cup (IF \E i \in 1..Len(r.lookups) : ~r.lookups[i].get_agrees THEN {"GetAgrees"} ELSE {})
    \cup (IF \E i \in 1..Len(r.filters) : MapOf(r.filters[i].entries) # H!Filter(m, r.filters[i].prefix) THEN {"FilterRule"} ELSE {})
    \cup (IF \E i \in 1..Len(r.prepends) : MapOf(r.prepends[i].entries) # H!Prepend(m, r.prepends[i].head) THEN {"PrependRule"} ELSE {})

Init == l = 1 /\ bad = 0
Step == /\ l <= Len(Rec) /\ l' = l + 1
        /\ LET fs == Failures(Rec[l]) IN (\A f \in fs : PrintT(<<"JUDGE", l, f>>)) /\ bad' = bad + Cardinality(fs)
Spec == Init /\ [][Step]_<<l, bad>>
Accepted == IF TLCGet("stats").diameter - 1 = Len(Rec) THEN PrintT(<<"ACCEPTED", Len(Rec)>>)
            ELSE Print(<<"TRACE NOT CONSUMED, stopped at", TLCGet("stats").diameter>>, FALSE)
=============================================================================
