---------------------------- MODULE SplitTerms ----------------------------
(***************************************************************************)
(* Terms and layered splits (src/expr/split.rs).                           *)
(*                                                                         *)
(* A SELECT list mixing aggregates and scalar expressions is compiled by   *)
(* `Split::and` into a chain of layers  Map -> Reduce -> Map -> ...  (top  *)
(* first): a Map layer defines named scalar expressions over the columns   *)
(* of the layer below, a Reduce layer defines named aggregates of columns  *)
(* of the layer below and the grouping columns.  The meaning of a chain is *)
(* obtained by substituting, bottom-up, every column reference by its      *)
(* definition in the layer below (`EnvAt`).  The chain is right when that  *)
(* meaning is the SELECT list and the GROUP BY list it was built from.     *)
(*                                                                         *)
(* Pure definitions only (used by Split.tla and by Trace_Split.tla).       *)
(***************************************************************************)
EXTENDS Naturals, Sequences, FiniteSets

Col(n) == [k |-> "col", n |-> n, a |-> << >>]
Lit(n) == [k |-> "val", n |-> n, a |-> << >>]
Fn(f, args) == [k |-> "fn", n |-> f, a |-> args]
Agg(g, u) == [k |-> "agg", n |-> g, a |-> <<u>>]
Unbound(n) == [k |-> "unbound", n |-> n, a |-> << >>]

RECURSIVE HasAgg(_), HasCol(_), HasUnbound(_), Norm(_), AggSubs(_)
HasAgg(t) == t.k = "agg" \/ \E i \in 1..Len(t.a) : HasAgg(t.a[i])
HasCol(t) == t.k = "col" \/ \E i \in 1..Len(t.a) : HasCol(t.a[i])
HasUnbound(t) == t.k = "unbound" \/ \E i \in 1..Len(t.a) : HasUnbound(t.a[i])
\* `first(x)` is how a grouped query refers to a grouping expression: it denotes x
Norm(t) == IF t.k = "agg" /\ t.n = "First" THEN Norm(t.a[1])
           ELSE [k |-> t.k, n |-> t.n, a |-> [i \in 1..Len(t.a) |-> Norm(t.a[i])]]
\* outermost aggregate sub-terms
AggSubs(t) == IF t.k = "agg" THEN {t} ELSE UNION {AggSubs(t.a[i]) : i \in 1..Len(t.a)}

(* layers: [kind |-> "map" | "reduce", defs |-> Seq([n, t]), groups |-> Seq(column name),
            filter |-> Seq(term) of length <= 1, order |-> Seq(term)] *)
Lookup(defs, n) ==
    LET S == {i \in 1..Len(defs) : defs[i].n = n}
    IN IF S = {} THEN Unbound(n) ELSE defs[CHOOSE i \in S : \A j \in S : i <= j].t

RECURSIVE Subst(_, _, _)
Subst(t, defs, bottom) ==
    IF t.k = "col" THEN (IF bottom THEN t ELSE Lookup(defs, t.n))
    ELSE [k |-> t.k, n |-> t.n, a |-> [i \in 1..Len(t.a) |-> Subst(t.a[i], defs, bottom)]]

RECURSIVE EnvAt(_, _)
\* the definitions of layer i with every column reference unfolded down to the input columns
EnvAt(chain, i) ==
    LET bottom == i = Len(chain)
        below == IF bottom THEN << >> ELSE EnvAt(chain, i + 1)
    IN [j \in 1..Len(chain[i].defs) |->
            [n |-> chain[i].defs[j].n, t |-> Subst(chain[i].defs[j].t, below, bottom)]]
Below(chain, i) == IF i = Len(chain) THEN << >> ELSE EnvAt(chain, i + 1)
GroupsAt(chain, i) == {Subst(Col(chain[i].groups[j]), Below(chain, i), i = Len(chain)) : j \in 1..Len(chain[i].groups)}
FilterAt(chain, i) == {Subst(chain[i].filter[j], Below(chain, i), i = Len(chain)) : j \in 1..Len(chain[i].filter)}
OrderAt(chain, i) == [j \in 1..Len(chain[i].order) |-> Subst(chain[i].order[j], Below(chain, i), i = Len(chain))]

RangeOf(s) == {s[i] : i \in 1..Len(s)}
Reduces(chain) == {i \in 1..Len(chain) : chain[i].kind = "reduce"}
FirstReduce(chain) == CHOOSE i \in Reduces(chain) : \A j \in Reduces(chain) : i <= j

(* ---- the judges: what makes a chain a right compilation of (groups, outs) ---- *)
Alternates(chain) == \A i \in 1..Len(chain) - 1 : chain[i].kind # chain[i + 1].kind
MapsPure(chain) == \A i \in 1..Len(chain) : chain[i].kind = "map" =>
                      /\ \A j \in 1..Len(chain[i].defs) : ~HasAgg(chain[i].defs[j].t)
                      /\ \A j \in 1..Len(chain[i].filter) : ~HasAgg(chain[i].filter[j])
ReducesShaped(chain) == \A i \in Reduces(chain) : \A j \in 1..Len(chain[i].defs) :
                           LET t == chain[i].defs[j].t IN t.k = "agg" /\ t.a[1].k = "col"
NoNameClash(chain) == \A i \in 1..Len(chain) : \A j, k \in 1..Len(chain[i].defs) :
                         chain[i].defs[j].n = chain[i].defs[k].n => chain[i].defs[j].t = chain[i].defs[k].t
Closed(chain) == /\ \A d \in RangeOf(EnvAt(chain, 1)) : ~HasUnbound(d.t)
                 /\ \A i \in 1..Len(chain) : /\ \A g \in GroupsAt(chain, i) : ~HasUnbound(g)
                                             /\ \A f \in FilterAt(chain, i) : ~HasUnbound(f)
DenotesOuts(chain, outs) == \A o \in RangeOf(outs) : \E d \in RangeOf(EnvAt(chain, 1)) : d.n = o.n /\ Norm(d.t) = Norm(o.t)
NoExtraOutputs(chain, outs) == outs # << >> => \A d \in RangeOf(chain[1].defs) : \E o \in RangeOf(outs) : o.n = d.n
GroupsDenote(chain, groups) ==
    IF groups = << >> THEN \A i \in Reduces(chain) : chain[i].groups = << >>
    ELSE /\ Reduces(chain) # {}
         /\ {Norm(g) : g \in GroupsAt(chain, FirstReduce(chain))} = {Norm(g) : g \in RangeOf(groups)}
         /\ \A i \in Reduces(chain) \ {FirstReduce(chain)} : chain[i].groups = << >>
\* an aggregated SELECT list has a Reduce, a plain one has none
ReduceIffAggregated(chain, groups, outs) ==
    (Reduces(chain) # {}) <=> (groups # << >> \/ \E o \in RangeOf(outs) : HasAgg(o.t))

\* the WHERE clause sits in exactly one Map, below every Reduce (rows are filtered before they are aggregated), and denotes the predicate
FilterDenotes(chain, where) ==
    LET F == {i \in 1..Len(chain) : chain[i].filter # << >>} IN
    IF where = << >> THEN F = {}
    ELSE /\ Cardinality(F) = 1
         /\ \A i \in F : /\ chain[i].kind = "map"
                          /\ \A r \in Reduces(chain) : r < i
                          /\ {Norm(f) : f \in FilterAt(chain, i)} = {Norm(where[1])}

JudgeNames == {"Alternates", "MapsPure", "ReducesShaped", "NoNameClash", "Closed", "DenotesOuts", "NoExtraOutputs",
               "GroupsDenote", "ReduceIffAggregated", "FilterDenotes"}
ChainFailures(chain, groups, outs, where) ==
    IF chain = << >> THEN {"EmptyChain"} ELSE
    (IF Alternates(chain) THEN {} ELSE {"Alternates"})
    \cup (IF MapsPure(chain) THEN {} ELSE {"MapsPure"})
    \cup (IF ReducesShaped(chain) THEN {} ELSE {"ReducesShaped"})
    \cup (IF NoNameClash(chain) THEN {} ELSE {"NoNameClash"})
    \cup (IF Closed(chain) THEN {} ELSE {"Closed"})
    \cup (IF DenotesOuts(chain, outs) THEN {} ELSE {"DenotesOuts"})
    \cup (IF NoExtraOutputs(chain, outs) THEN {} ELSE {"NoExtraOutputs"})
    \cup (IF GroupsDenote(chain, groups) THEN {} ELSE {"GroupsDenote"})
    \cup (IF ReduceIffAggregated(chain, groups, outs) THEN {} ELSE {"ReduceIffAggregated"})
    \cup (IF FilterDenotes(chain, where) THEN {} ELSE {"FilterDenotes"})
=============================================================================
