CONSTANTS
  MaxItems = 2
SPECIFICATION Spec
INVARIANTS NeverArbitrary Emit
CHECK_DEADLOCK FALSE
