CONSTANTS
  MaxItems = 2
  WithPath = TRUE
SPECIFICATION Spec
INVARIANTS NeverArbitrary Emit
CHECK_DEADLOCK FALSE
