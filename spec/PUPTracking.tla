---------------------------- MODULE PUPTracking ----------------------------
(***************************************************************************)
(* Privacy-unit tracking (privacy_unit_tracking/mod.rs) on a tiny database:*)
(*   users(id unique, g)            protected, privacy unit = id           *)
(*   orders(user_id -> users.id, k, v) protected, privacy unit = user_id   *)
(*                                   directly, or users.id along the path  *)
(*   pub(k, w)                      public                                 *)
(* A tracked relation is a sequence of rows [pu, w, vals].  The operators  *)
(* below are what the rewriting builds for each node: inner joins along    *)
(* the foreign-key path for tables, pass-through for maps, GROUP BY the    *)
(* unit for aggregations (hard strategy), the added unit equality for      *)
(* joins of two tracked relations, the tracked side's unit for joins with  *)
(* a published relation -- whatever the join kind, as in the code.         *)
(*                                                                         *)
(* Locality (C05): the rows attributed to unit u are exactly the rows the  *)
(* same tracked query returns on the database restricted to u.             *)
(***************************************************************************)
EXTENDS Integers, Sequences, FiniteSets, TLC, SequencesExt, FiniteSetsExt

CONSTANTS Sample, MaxRows
NULL == -9999
Units == 0..2
Pick(S) == IF Sample /\ S # {} THEN {RandomElement(S)} ELSE S
SeqMap(s, F(_)) == [i \in 1..Len(s) |-> F(s[i])]
RECURSIVE SumSeq(_)
SumSeq(s) == IF s = << >> THEN 0 ELSE Head(s) + SumSeq(Tail(s))
RECURSIVE Dedup(_)
Dedup(s) == IF s = << >> THEN << >>
            ELSE LET rest == Dedup(SubSeq(s, 1, Len(s) - 1)) last == s[Len(s)]
                 IN IF \E i \in 1..Len(rest) : rest[i] = last THEN rest ELSE Append(rest, last)
Occ(s, x) == Cardinality({ i \in 1..Len(s) : s[i] = x })
BagEq(a, b) == Len(a) = Len(b) /\ \A i \in 1..Len(a) : Occ(a, a[i]) = Occ(b, a[i])

(* ---- database -------------------------------------------------------------- *)
\* db = [users |-> seq of <<id, g>>, orders |-> seq of <<user_id, k, v>>, pub |-> seq of <<k, w>>]
UsersRows == Units \X {0, 1}
OrdersRows == Units \X {0, 1} \X {0, 1, 2, NULL}
PubRows == {0, 1} \X {1, 2}
\* a two-step chain: items(aid, z) -> accounts(aid unique, uid) -> users(id)
AccountsRows == (0..2) \X Units
ItemsRows == (0..2) \X {0, 1}
Tables == {"users", "orders", "pub", "accounts", "items"}
UniqueIds(d) == /\ \A i, j \in 1..Len(d.users) : i # j => d.users[i][1] # d.users[j][1]
                /\ \A i, j \in 1..Len(d.accounts) : i # j => d.accounts[i][1] # d.accounts[j][1]

\* the database restricted to unit u: protected rows not owned by u are deleted, public tables are kept
RestrictTo(d, u) == [users |-> SelectSeq(d.users, LAMBDA r : r[1] = u),
                   orders |-> SelectSeq(d.orders, LAMBDA r : r[1] = u),
                   pub |-> d.pub,
                   accounts |-> SelectSeq(d.accounts, LAMBDA r : r[2] = u),
                   \* an item belongs to the unit of its account (items of unknown accounts belong to nobody)
                   items |-> SelectSeq(d.items, LAMBDA r : \E a \in 1..Len(d.accounts) : d.accounts[a][1] = r[1] /\ d.accounts[a][2] = u)]

(* ---- tracked relations -------------------------------------------------------- *)
T(pu, w, vals) == [pu |-> pu, w |-> w, vals |-> vals]

\* orders with its privacy unit: `direct` reads user_id; `path` joins users on user_id = id (inner)
TrackOrders(d, pudef) ==
    IF pudef = "direct" THEN SeqMap(d.orders, LAMBDA r : T(r[1], 1, r))
    ELSE LET pairs == { p \in (1..Len(d.users)) \X (1..Len(d.orders)) : d.users[p[1]][1] = d.orders[p[2]][1] }
             ord == SetToSortSeq(pairs, LAMBDA x, y : x[2] < y[2] \/ (x[2] = y[2] /\ x[1] < y[1]))
         IN SeqMap(ord, LAMBDA p : T(d.users[p[1]][1], 1, d.orders[p[2]]))
TrackUsers(d) == SeqMap(d.users, LAMBDA r : T(r[1], 1, r))
\* items with their privacy unit: `direct` joins accounts and reads uid (one step); `path` goes on to users (two steps:
\* items.aid -> accounts.aid, accounts.uid -> users.id), every step an inner join
TrackItems(d, pudef) ==
    LET pairs == { p \in (1..Len(d.items)) \X (1..Len(d.accounts)) :
                     /\ d.items[p[1]][1] = d.accounts[p[2]][1]
                     /\ (pudef = "path" => \E k \in 1..Len(d.users) : d.users[k][1] = d.accounts[p[2]][2]) }
        ord == SetToSortSeq(pairs, LAMBDA x, y : x[1] < y[1] \/ (x[1] = y[1] /\ x[2] < y[2]))
    IN SeqMap(ord, LAMBDA p : T(d.accounts[p[2]][2], 1, d.items[p[1]]))
Published(d) == SeqMap(d.pub, LAMBDA r : T(NULL, NULL, r))     \* no unit: a published relation

\* WHERE on the i-th value (> 0, NULL does not pass), projection keeps everything
FilterT(rel, i) == SelectSeq(rel, LAMBDA r : r.vals[i] # NULL /\ r.vals[i] > 0)

\* hard strategy: GROUP BY unit, key column i; SUM of column j (NULLs ignored, NULL when none)
ReduceT(rel, i, j) ==
    LET keys == Dedup(SeqMap(rel, LAMBDA r : <<r.pu, r.vals[i]>>))
    IN SeqMap(keys, LAMBDA k :
          LET grp == SelectSeq(rel, LAMBDA r : r.pu = k[1] /\ r.vals[i] = k[2])
              nn  == SelectSeq(SeqMap(grp, LAMBDA r : r.vals[j]), LAMBDA v : v # NULL)
          IN T(k[1], SumSeq(SeqMap(grp, LAMBDA r : r.w)), <<k[2], IF nn = << >> THEN NULL ELSE SumSeq(nn)>>))

NullVals(n) == [i \in 1..n |-> NULL]
\* generic join on equality of L.vals[i] and R.vals[j] (NULL never matches), plus unit equality when both are tracked
JoinT(kind, L, R, i, j, both, nl, nr, unitOf) ==
    LET Test(l, r) == l.vals[i] # NULL /\ r.vals[j] # NULL /\ l.vals[i] = r.vals[j]
                      /\ (both => l.pu # NULL /\ r.pu # NULL /\ l.pu = r.pu)
        pairs == { p \in (1..Len(L)) \X (1..Len(R)) : Test(L[p[1]], R[p[2]]) }
        ord   == SetToSortSeq(pairs, LAMBDA x, y : x[1] < y[1] \/ (x[1] = y[1] /\ x[2] < y[2]))
        W(l, r) == IF both THEN (IF l.w = NULL \/ r.w = NULL THEN NULL ELSE l.w * r.w)
                   ELSE IF unitOf = "left" THEN l.w ELSE r.w
        P(l, r) == IF unitOf = "left" THEN l.pu ELSE r.pu
        inner == SeqMap(ord, LAMBDA p : T(P(L[p[1]], R[p[2]]), W(L[p[1]], R[p[2]]), L[p[1]].vals \o R[p[2]].vals))
        noL   == [pu |-> NULL, w |-> NULL, vals |-> NullVals(nl)]
        noR   == [pu |-> NULL, w |-> NULL, vals |-> NullVals(nr)]
        lonly == SelectSeq(L, LAMBDA l : \A q \in 1..Len(R) : ~Test(l, R[q]))
        ronly == SelectSeq(R, LAMBDA r : \A q \in 1..Len(L) : ~Test(L[q], r))
        lpad  == SeqMap(lonly, LAMBDA l : T(P(l, noR), W(l, noR), l.vals \o NullVals(nr)))
        rpad  == SeqMap(ronly, LAMBDA r : T(P(noL, r), W(noL, r), NullVals(nl) \o r.vals))
    IN CASE kind = "inner" -> inner
         [] kind = "left"  -> inner \o lpad
         [] kind = "right" -> inner \o rpad
         [] kind = "full"  -> inner \o lpad \o rpad

(* ---- the query shapes ----------------------------------------------------------- *)
Kinds == {"inner", "left", "right", "full"}
Shapes == { [s |-> "map"], [s |-> "filter"], [s |-> "reduce"], [s |-> "union"], [s |-> "items_map"] }
          \cup { [s |-> sh, kind |-> k] : sh \in {"orders_pub", "pub_orders", "orders_users", "orders_users_k", "reduce_pub"}, k \in Kinds }
PuDefs == {"direct", "path"}

\* the tracked result of shape q on database d
Eval(q, pudef, d) ==
    LET O == TrackOrders(d, pudef) IN
    CASE q.s = "map"     -> O
      [] q.s = "filter"  -> FilterT(O, 3)
      [] q.s = "reduce"  -> ReduceT(O, 2, 3)
      [] q.s = "union"   -> O \o FilterT(O, 3)
      [] q.s = "items_map" -> TrackItems(d, pudef)
      [] q.s = "orders_pub"   -> JoinT(q.kind, O, Published(d), 2, 1, FALSE, 3, 2, "left")
      [] q.s = "pub_orders"   -> JoinT(q.kind, Published(d), O, 1, 2, FALSE, 2, 3, "right")
      [] q.s = "orders_users" -> JoinT(q.kind, O, TrackUsers(d), 1, 1, TRUE, 3, 2, "left")
      \* two tracked relations joined on a column that is not the unit (orders.k = users.g): only the added
      \* equality of the units keeps a row from carrying another unit's data
      [] q.s = "orders_users_k" -> JoinT(q.kind, O, TrackUsers(d), 2, 2, TRUE, 3, 2, "left")
      [] q.s = "reduce_pub"   -> JoinT(q.kind, ReduceT(O, 2, 3), Published(d), 1, 1, FALSE, 2, 2, "left")

(* ---- state machine: build a database, pick a shape ------------------------------- *)
VARIABLES db, target, q, pudef
vars == <<db, target, q, pudef>>
Init == /\ db = [users |-> << >>, orders |-> << >>, pub |-> << >>, accounts |-> << >>, items |-> << >>]
        /\ target \in [Tables -> 0..MaxRows]
        /\ q = [s |-> "none"] /\ pudef \in PuDefs
Full == \A t \in Tables : Len(db[t]) = target[t]
RowsFor(t) == CASE t = "users" -> UsersRows [] t = "orders" -> OrdersRows [] t = "accounts" -> AccountsRows [] t = "items" -> ItemsRows [] OTHER -> PubRows
InsertRow == /\ q.s = "none" /\ ~Full
             /\ \E t \in Tables :
                   /\ Len(db[t]) < target[t]
                   /\ \E r \in Pick({ x \in RowsFor(t) : UniqueIds([db EXCEPT ![t] = Append(@, x)]) }) :
                         db' = [db EXCEPT ![t] = Append(@, r)]
             /\ UNCHANGED <<target, q, pudef>>
Choose == /\ q.s = "none" /\ Full
          /\ \E s \in Pick(Shapes) : q' = s
          /\ UNCHANGED <<db, target, pudef>>
Next == InsertRow \/ Choose
Spec == Init /\ [][Next]_vars

(* ---- C05 on the model --------------------------------------------------------------- *)
Done == q.s # "none"
Res == Eval(q, pudef, db)
PuNonNull == \A i \in 1..Len(Res) : Res[i].pu # NULL /\ Res[i].w # NULL
Locality == \A u \in Units : BagEq(SelectSeq(Res, LAMBDA r : r.pu = u), Eval(q, pudef, RestrictTo(db, u)))
\* what the model predicts for the case (the model mirrors the code: outer joins whose preserved side is
\* not the tracked side leave rows without a unit)
Safe(x) == x.s \in {"map", "filter", "reduce", "union", "items_map"}
           \/ (x.s \in {"orders_pub", "reduce_pub"} /\ x.kind \in {"inner", "left"})
           \/ (x.s = "pub_orders" /\ x.kind \in {"inner", "right"})
           \/ (x.s \in {"orders_users", "orders_users_k"} /\ x.kind = "inner")
\* the invariants TLC checks: on the shapes where the construction is expected to be sound
SafeShapesSound == (Done /\ Safe(q)) => (PuNonNull /\ Locality)
=============================================================================
