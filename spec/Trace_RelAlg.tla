---------------------------- MODULE Trace_RelAlg ----------------------------
(***************************************************************************)
(* Judges for the observation records produced by compiling and executing  *)
(* (query, database) cases on the real code (harness `sql-run`):           *)
(*   C07  every executed node: values inside the declared column types,    *)
(*        NULL only where optional, row count inside the declared size     *)
(*   C14  columns flagged unique / primary key hold pairwise distinct      *)
(*        non-null values, at every node                                   *)
(*   C08  rendered SQL returns the same column names, the same bag of rows *)
(*        and, under ORDER BY, rows sorted by the keys                     *)
(*   C18  no stage ended in a panic                                        *)
(*   C16  re-parsing the rendered SQL gives the same schema and results    *)
(* One record = one step.  All numbers and strings are rank-encoded by the *)
(* driver (order and equality are all the judges need).                    *)
(* A value is <<kind, rank, frac>>: kind 0 NULL, 1 integer, 2 real, 3 text,*)
(* 4 blob; frac = 1 for a real with a fractional part.                     *)
(***************************************************************************)
EXTENDS Integers, Sequences, FiniteSets, TLC, Json, IOUtils, SequencesExt, Functions

VARIABLES l, bad

Rec == ndJsonDeserialize(IOEnv.TRACE)

IsNull(v) == v[1] = 0
\* numeric values compare by rank whatever their storage class
Norm(v) == IF v[1] \in {1, 2} THEN <<1, v[2]>> ELSE <<v[1], v[2]>>
NormRow(r) == [i \in 1..Len(r) |-> Norm(r[i])]
NormRows(rs) == [i \in 1..Len(rs) |-> NormRow(rs[i])]
Occ(s, x) == Cardinality({ i \in 1..Len(s) : s[i] = x })
BagEq(a, b) == /\ Len(a) = Len(b)
               /\ \A i \in 1..Len(a) : Occ(a, a[i]) = Occ(b, a[i])

InIvs(r, ivs) == \E i \in 1..Len(ivs) : ivs[i][1] <= r /\ r <= ivs[i][2]

(* ---- C07 ---------------------------------------------------------------- *)
\* column kinds: 0 unknown (no claim), 1 integer, 2 float, 3 text
ValueInType(v, c) ==
    IF IsNull(v) THEN TRUE
    ELSE CASE c.k = 0 -> TRUE
           [] c.k = 1 -> v[1] \in {1, 2} /\ v[3] = 0 /\ InIvs(v[2], c.ivs)
           [] c.k = 2 -> v[1] \in {1, 2} /\ InIvs(v[2], c.ivs)
           [] c.k = 3 -> v[1] = 3 /\ InIvs(v[2], c.ivs)
           [] OTHER -> TRUE
NullAllowed(v, c) == IsNull(v) => (c.opt \/ c.k = 0)
TypeContains(n) == \A i \in 1..Len(n.rows) : \A j \in 1..Len(n.cols) : ValueInType(n.rows[i][j], n.cols[j])
NullOnlyIfOptional(n) == \A i \in 1..Len(n.rows) : \A j \in 1..Len(n.cols) : NullAllowed(n.rows[i][j], n.cols[j])
SizeContains(n) == InIvs(Len(n.rows), n.size)

(* ---- C14 ---------------------------------------------------------------- *)
UniqueHolds(n) == \A j \in 1..Len(n.cols) : n.cols[j].uniq =>
                     \A i1, i2 \in 1..Len(n.rows) :
                        (i1 # i2 /\ ~IsNull(n.rows[i1][j]) /\ ~IsNull(n.rows[i2][j]))
                           => Norm(n.rows[i1][j]) # Norm(n.rows[i2][j])

(* ---- C08 ---------------------------------------------------------------- *)
\* keys: <<<<column index, ascending>>, ...>>; NULL sorts first (the engine's rule, shared by both runs)
K(v) == IF IsNull(v) THEN -1 ELSE v[2]
RECURSIVE Before(_, _, _)
Before(r1, r2, keys) ==
    IF keys = << >> THEN FALSE
    ELSE LET c == keys[1][1] a == K(r1[c]) b == K(r2[c]) IN
         IF a = b THEN Before(r1, r2, Tail(keys))
         ELSE IF keys[1][2] THEN a < b ELSE a > b
Sorted(rows, keys) == \A i \in 1..(Len(rows) - 1) : ~Before(rows[i+1], rows[i], keys)

NodeJudges(n) ==
    (IF TypeContains(n) THEN {} ELSE {"TypeContains"})
    \cup (IF NullOnlyIfOptional(n) THEN {} ELSE {"NullOnlyIfOptional"})
    \cup (IF SizeContains(n) THEN {} ELSE {"SizeContains"})
    \cup (IF UniqueHolds(n) THEN {} ELSE {"UniqueHolds"})

Fail(i, name, node) == PrintT(<<"JUDGE", i, name, node>>)
Drift(i, name) == PrintT(<<"DRIFT", i, name>>)

\* all failures of one record: set of <<judge, node index (0 = whole query)>>
Failures(r) ==
    IF r.outcome = "panic" THEN { <<"NoPanic", 0>> }
    ELSE IF r.outcome # "ok" THEN {}
    ELSE
      UNION { { <<j, k>> : j \in NodeJudges(r.nodes[k]) } : k \in { k \in 1..Len(r.nodes) : r.nodes[k].exec } }
      \cup (IF r.cmp = 1 /\ r.onames # r.rnames THEN { <<"SameColumns", 0>> } ELSE {})
      \cup (IF r.cmp = 1 /\ ~BagEq(NormRows(r.orig), NormRows(r.rend)) THEN { <<"SameRows", 0>> } ELSE {})
      \cup (IF r.cmp = 1 /\ r.okeys # << >> /\ BagEq(NormRows(r.orig), NormRows(r.rend)) /\ ~Sorted(r.rend, r.okeys) THEN { <<"SameOrder", 0>> } ELSE {})
      \* (only when the bags agree: otherwise SameRows already says it)
      \cup (IF r.cmp = 1 /\ r.okeys # << >> /\ r.total /\ BagEq(NormRows(r.orig), NormRows(r.rend)) /\ NormRows(r.orig) # NormRows(r.rend)
            THEN { <<"SameSequence", 0>> } ELSE {})
      \cup (IF r.re = 1 /\ (~r.re_schema \/ r.root_names # r.re_names \/ r.root_cols # r.re_cols) THEN { <<"ReparseSchema", 0>> } ELSE {})
      \cup (IF r.re = 1 /\ r.cmp = 1 /\ ~BagEq(NormRows(r.rend2), NormRows(r.rend)) THEN { <<"ReparseRows", 0>> } ELSE {})

Init == l = 1 /\ bad = 0
Step == /\ l <= Len(Rec)
        /\ l' = l + 1
        /\ LET r == Rec[l] fs == Failures(r) IN
           /\ \A f \in fs : Fail(l, f[1], f[2])
           /\ bad' = bad + Cardinality(fs)
           /\ (r.outcome = "ok" /\ r.has_spec /\ r.cmp = 1 /\ ~BagEq(NormRows(r.spec), NormRows(r.orig))) => Drift(l, "spec_vs_engine")
Spec == Init /\ [][Step]_<<l, bad>>

Accepted == IF TLCGet("stats").diameter - 1 = Len(Rec) THEN PrintT(<<"ACCEPTED", Len(Rec)>>)
            ELSE Print(<<"TRACE NOT CONSUMED, stopped at", TLCGet("stats").diameter>>, FALSE)
=============================================================================
