----------------------------- MODULE Trace_Namer -----------------------------
(***************************************************************************)
(* Validation of what the real compiler did while the same queries were    *)
(* compiled at different positions of a history, from several threads and  *)
(* in several processes (harness det-run):                                 *)
(*  - "count" events (hook in namer::count, emitted while the counter      *)
(*    mutex is held, ordered by a per-process sequence number): each must  *)
(*    be the CountAndRelease step of Namer.tla on the current counter      *)
(*    state, i.e. the value read before the draw is the model's;           *)
(*  - "job" records: the observable output of one compilation (hashes of   *)
(*    the relation structure, its display, the rendered text, the list of  *)
(*    generated names).  C16: the output is a function of the query only.  *)
(***************************************************************************)
EXTENDS Integers, Sequences, FiniteSets, TLC, Json, IOUtils

VARIABLES l, counter, seen, bad
Rec == ndJsonDeserialize(IOEnv.TRACE)

Init == l = 1 /\ counter = [p \in {} |-> 0] /\ seen = [q \in {} |-> << >>] /\ bad = 0
Get(p) == IF p \in DOMAIN counter THEN counter[p] ELSE -1

Step ==
    /\ l <= Len(Rec)
    /\ l' = l + 1
    /\ LET r == Rec[l] IN
       CASE r.ev = "reset" ->      \* a new process: the counter starts empty
              counter' = [p \in {} |-> 0] /\ UNCHANGED <<seen, bad>>
         [] r.ev = "count" ->
              /\ IF r.pre # Get(r.prefix) THEN PrintT(<<"JUDGE", l, "CounterSequential">>) /\ bad' = bad + 1 ELSE bad' = bad
              /\ counter' = [p \in DOMAIN counter \cup {r.prefix} |-> IF p = r.prefix THEN r.pre + 1 ELSE counter[p]]
              /\ UNCHANGED seen
         [] r.ev = "job" ->
              /\ UNCHANGED counter
              /\ IF ~r.render_twice_same THEN PrintT(<<"JUDGE", l, "RenderStable">>) ELSE TRUE
              /\ IF r.q \in DOMAIN seen
                 THEN /\ seen' = seen
                      /\ IF seen[r.q] # r.sig THEN PrintT(<<"JUDGE", l, "Deterministic">>) /\ bad' = bad + 1 ELSE bad' = bad
                 ELSE /\ seen' = [q \in DOMAIN seen \cup {r.q} |-> IF q = r.q THEN r.sig ELSE seen[q]]
                      /\ bad' = bad
Spec == Init /\ [][Step]_<<l, counter, seen, bad>>
Accepted == IF TLCGet("stats").diameter - 1 = Len(Rec) THEN PrintT(<<"ACCEPTED", Len(Rec)>>)
            ELSE Print(<<"TRACE NOT CONSUMED, stopped at", TLCGet("stats").diameter>>, FALSE)
=============================================================================
