CONSTANTS
  N = 3
  Rich = FALSE
SPECIFICATION Spec
POSTCONDITION Accepted
CHECK_DEADLOCK FALSE
