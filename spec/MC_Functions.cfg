CONSTANTS
  N = 5
  Rich = FALSE
  Which = "image"
  Thin = 1
SPECIFICATION Spec
INVARIANT Emit
CHECK_DEADLOCK FALSE
