SPECIFICATION Spec
CONSTANTS
  Cols = {"a", "b"}
  Lits = {"1"}
  F1 = {"Opposite"}
  F2 = {"Plus"}
  Aggs = {"Sum"}
  MaxG = 1
  MaxOuts = 1
  Thin = 1
  WithWhere = TRUE
INVARIANTS TypeOK RefSound RefTight RefTight2 RefTight3 Emit
CHECK_DEADLOCK FALSE
