------------------------------ MODULE MC_Split ------------------------------
EXTENDS Split, Json
CONSTANT Thin
\* one replay case per reachable state with at least one SELECT item (Thin > 1: a deterministic 1/Thin sample)
Key == Len(ToString(<<groups, outs, where>>))
Emit == (outs # << >> /\ Key % Thin = 0) => PrintT(<<"REPLAY", ToJson([mode |-> mode, groups |-> groups, outs |-> outs, where |-> where])>>)
MCNext == Emit /\ Next
MCSpec == Init /\ [][MCNext]_vars
=============================================================================
