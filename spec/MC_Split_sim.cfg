SPECIFICATION MCSpec
CONSTANTS
  Cols = {"a", "b"}
  Lits = {"1"}
  F1 = {"Opposite", "Abs"}
  F2 = {"Plus", "Multiply"}
  Aggs = {"Sum", "Count", "Max"}
  MaxG = 2
  MaxOuts = 3
  Thin = 1
  WithWhere = TRUE
INVARIANTS TypeOK RefSound
CHECK_DEADLOCK FALSE
