------------------------------- MODULE ExprCases -------------------------------
(***************************************************************************)
(* The case space of range propagation (C06) and of predicate narrowing    *)
(* (C10): expressions over typed columns.  A case is an expression term    *)
(* and the abstract types of its columns (DataTypes.tla); the driver       *)
(* concretises it under several order embeddings, asks the library for the *)
(* image of the column types and for the value on every row of universe    *)
(* points, and TLC judges  value y  =>  image succeeds and contains y.     *)
(*                                                                         *)
(* Terms: [col |-> i] | [lit |-> value] | [f |-> name, args |-> terms]     *)
(*        | [agg |-> name, arg |-> term]                                   *)
(***************************************************************************)
EXTENDS DataTypes

Col(i) == [col |-> i]
Fn(f, args) == [f |-> f, args |-> args]

(* ---- pools of column types ----------------------------------------------- *)
Shapes == { << <<0, 0>> >>, << <<1, 3>> >>, << <<0, 4>> >>, << <<0, 0>>, <<2, 2>>, <<4, 4>> >>, << <<2, 4>> >> }
NumTypes == { Prim(k, s) : k \in {"int", "float"}, s \in Shapes }
NumTypesOpt == NumTypes \cup { Opt(Prim(k, << <<1, 3>> >>)) : k \in {"int", "float"} }
BoolTypes == { Prim("bool", << <<0, 0>> >>), Prim("bool", << <<1, 1>> >>), Prim("bool", << <<0, 1>> >>) }
TextTypes == { Prim("text", s) : s \in { << <<0, 0>> >>, << <<0, 4>> >>, << <<1, 1>>, <<3, 3>> >> } }
DateTypes == { Prim(k, s) : k \in {"date", "datetime"}, s \in { << <<0, 0>> >>, << <<0, 4>> >>, << <<1, 1>>, <<3, 3>> >> } }

(* ---- functions by signature ------------------------------------------------ *)
UnaryNum  == {"opposite", "exp", "ln", "log", "abs", "sin", "cos", "sqrt", "ceil", "floor", "sign",
              "cast_as_text", "cast_as_float", "cast_as_integer", "cast_as_boolean", "is_null"}
BinaryNum == {"plus", "minus", "multiply", "divide", "modulo", "pow", "least", "greatest",
              "gt", "lt", "gt_eq", "lt_eq", "eq", "not_eq", "round", "trunc", "coalesce"}
UnaryBool == {"not", "cast_as_text", "cast_as_integer", "cast_as_float"}
BinaryBool == {"and", "or", "xor", "eq"}
UnaryText == {"char_length", "lower", "upper", "md5", "cast_as_integer", "cast_as_float", "cast_as_boolean", "cast_as_date", "cast_as_date_time", "is_null"}
BinaryText == {"string_concat", "concat", "position", "like", "ltrim", "rtrim", "eq", "lt", "least", "greatest", "coalesce"}
UnaryDate == {"extract_year", "extract_month", "extract_day", "extract_dow", "extract_week", "quarter", "dayname", "cast_as_text",
              "date", "cast_as_date", "cast_as_date_time", "extract_hour", "extract_epoch", "unix_timestamp"}
BinaryDate == {"eq", "lt", "gt_eq", "least", "greatest"}
Aggs == {"min", "max", "median", "n_unique", "first", "last", "mean", "mean_distinct", "count", "count_distinct",
         "sum", "sum_distinct", "std", "std_distinct", "var", "var_distinct"}

Case(e, cols) == [expr |-> e, cols |-> cols]
Depth1 ==
       { Case(Fn(f, <<Col(0)>>), <<a>>) : f \in UnaryNum, a \in NumTypesOpt }
  \cup { Case(Fn(f, <<Col(0), Col(1)>>), <<a, b>>) : f \in BinaryNum, a \in NumTypesOpt, b \in NumTypes }
  \cup { Case(Fn(f, <<Col(0)>>), <<a>>) : f \in UnaryBool, a \in BoolTypes }
  \cup { Case(Fn(f, <<Col(0), Col(1)>>), <<a, b>>) : f \in BinaryBool, a \in BoolTypes, b \in BoolTypes }
  \cup { Case(Fn("case", <<Col(0), Col(1), Col(2)>>), <<c, a, b>>) : c \in BoolTypes, a \in NumTypes, b \in { Prim("int", << <<1, 3>> >>), Prim("float", << <<0, 4>> >>) } }
  \cup { Case(Fn(f, <<Col(0)>>), <<a>>) : f \in UnaryText, a \in TextTypes }
  \cup { Case(Fn(f, <<Col(0), Col(1)>>), <<a, b>>) : f \in BinaryText, a \in TextTypes, b \in TextTypes }
  \cup { Case(Fn("substr", <<Col(0), Col(1)>>), <<a, b>>) : a \in TextTypes, b \in { Prim("int", << <<0, 0>> >>), Prim("int", << <<1, 3>> >>) } }
  \cup { Case(Fn("substr_with_size", <<Col(0), Col(1), Col(2)>>), <<a, b, b>>) : a \in TextTypes, b \in { Prim("int", << <<0, 0>> >>), Prim("int", << <<1, 3>> >>) } }
  \cup { Case(Fn(f, <<Col(0)>>), <<a>>) : f \in UnaryDate, a \in DateTypes }
  \cup { Case(Fn(f, <<Col(0), Col(1)>>), <<a, b>>) : f \in BinaryDate, a \in DateTypes, b \in DateTypes }
Aggregates ==
  { Case([agg |-> g, arg |-> Col(0)], << ListOf(a, sz[1], sz[2]) >>) : g \in Aggs, a \in NumTypes, sz \in { <<0, 2>>, <<1, 3>>, <<2, 2>>, <<0, 0>> } }
\* compositions: an outer binary function over an inner unary / binary one
Outer == {"plus", "minus", "multiply", "divide", "least", "gt"}
InnerU == {"opposite", "abs", "sqrt", "exp", "sign", "cast_as_float"}
InnerB == {"multiply", "minus", "divide", "greatest"}
CoreTypes == { Prim(k, s) : k \in {"int", "float"}, s \in { << <<1, 3>> >>, << <<0, 4>> >>, << <<0, 0>>, <<2, 2>>, <<4, 4>> >> } }
Depth2 ==
       { Case(Fn(f, <<Fn(g, <<Col(0)>>), Col(1)>>), <<a, b>>) : f \in Outer, g \in InnerU, a \in CoreTypes, b \in CoreTypes }
  \cup { Case(Fn(f, <<Fn(g, <<Col(0), Col(1)>>), Col(0)>>), <<a, b>>) : f \in Outer, g \in InnerB, a \in CoreTypes, b \in CoreTypes }
  \cup { Case(Fn("case", <<Fn("gt", <<Col(0), Col(1)>>), Col(0), Col(1)>>), <<a, b>>) : a \in CoreTypes, b \in CoreTypes }

(* ---- predicates for C10 ------------------------------------------------------ *)
LitI(p) == [lit |-> PV("int", p)]
LitF(p) == [lit |-> PV("float", p)]
FilterCols == { <<a, b>> : a \in { Prim("int", << <<0, 4>> >>), Prim("int", << <<0, 0>>, <<2, 2>>, <<4, 4>> >>), Opt(Prim("int", << <<1, 3>> >>)), Prim("float", << <<0, 4>> >>), Opt(Prim("float", << <<0, 2>> >>)) },
                          b \in { Prim("int", << <<1, 3>> >>), Prim("float", << <<0, 0>>, <<2, 4>> >>), Opt(Prim("int", << <<0, 4>> >>)) } }
Atoms == { Fn(op, <<Col(0), l>>) : op \in {"gt", "gt_eq", "lt", "lt_eq", "eq", "not_eq"}, l \in { LitI(2), LitF(2), LitI(0), LitI(4) } }
         \cup { Fn(op, <<l, Col(0)>>) : op \in {"gt", "lt_eq", "eq"}, l \in { LitI(2), LitF(1) } }
         \cup { Fn(op, <<Col(0), Col(1)>>) : op \in {"gt", "gt_eq", "lt", "eq", "not_eq"} }
         \cup { Fn(op, <<Col(1), Col(0)>>) : op \in {"gt", "lt_eq"} }
         \cup { Fn("is_null", <<Col(0)>>), Fn("not", <<Fn("is_null", <<Col(0)>>)>>), Fn("is_null", <<Col(1)>>) }
         \cup { Fn("gt", <<Fn("plus", <<Col(0), Col(1)>>), LitI(2)>>) }    \* a term the narrowing does not understand
         \cup { Fn("in_list", <<Col(0), [list |-> l]>>) : l \in { <<PV("int", 2)>>, <<PV("int", 0), PV("int", 4)>>, <<PV("float", 2), PV("float", 3)>>, <<PV("int", 1), PV("float", 2)>> } }
         \cup { Fn("in_list", <<Col(1), [list |-> <<PV("int", 1), PV("int", 3)>>]>>) }
\* negations of compound predicates (De Morgan territory) over a few atoms, double negation, and a negated compound under AND
NegAtoms == { Fn("gt", <<Col(0), LitI(2)>>), Fn("lt_eq", <<Col(0), LitI(2)>>), Fn("eq", <<Col(0), LitI(2)>>), Fn("gt", <<Col(0), Col(1)>>),
              Fn("lt", <<Col(0), Col(1)>>), Fn("gt", <<Col(1), Col(0)>>), Fn("in_list", <<Col(0), [list |-> <<PV("int", 0), PV("int", 4)>>]>>), Fn("is_null", <<Col(0)>>) }
NegCompound == { Fn("not", <<Fn(op, <<p, r>>)>>) : op \in {"and", "or"}, p \in NegAtoms, r \in NegAtoms }
Predicates == Atoms \cup { Fn(op, <<p, r>>) : op \in {"and", "or"}, p \in Atoms, r \in Atoms } \cup { Fn("not", <<p>>) : p \in Atoms }
              \cup NegCompound \cup { Fn("not", <<Fn("not", <<p>>)>>) : p \in NegAtoms }
              \cup { Fn("and", <<Fn("lt_eq", <<Col(1), LitI(2)>>), n>>) : n \in NegCompound }
(* ---- projections of a UNIQUE column (C14): which expressions keep the constraint ---------------- *)
\* one column, every unary function and chains of two (the library keeps UNIQUE through the functions it lists
\* as one-to-one: is_bijection); column types are value sets and intervals, so that distinct inputs abound
Chain == {"opposite", "abs", "exp", "floor", "ceil", "sign", "sqrt", "cast_as_text", "cast_as_float", "cast_as_integer", "sin", "ln"}
UniqueCases ==
       { Case(Fn(f, <<Col(0)>>), <<a>>) : f \in UnaryNum, a \in NumTypes }
  \cup { Case(Fn(f, <<Fn(g, <<Col(0)>>)>>), <<a>>) : f \in Chain, g \in Chain, a \in CoreTypes }
  \cup { Case(Fn(f, <<Col(0)>>), <<a>>) : f \in UnaryText, a \in TextTypes }
  \cup { Case(Fn(f, <<Col(0)>>), <<a>>) : f \in UnaryDate, a \in DateTypes }
  \cup { Case(Fn(f, <<Col(0)>>), <<a>>) : f \in UnaryBool, a \in BoolTypes }
  \cup { Case(Fn(f, <<Col(0), l>>), <<a>>) : f \in {"plus", "minus", "multiply", "divide", "modulo", "least", "greatest"}, l \in {LitI(0), LitI(2)}, a \in CoreTypes }
=============================================================================
