------------------------------- MODULE Split -------------------------------
(***************************************************************************)
(* The SELECT-list compiler as a state machine (src/expr/split.rs as it is *)
(* driven by src/sql/relation.rs: try_from_select_items_selection_and_     *)
(* group_by).  Abstract state: the GROUP BY list and the named SELECT      *)
(* items given so far.  Actions: AddGroup (`split.and(Split::group_by(e))`)*)
(* while no item has been added, AddNamed (`split.and((name, e).into())`). *)
(*                                                                         *)
(* `RefChain` is the textbook three-layer compilation                      *)
(*     Map(post-aggregation expressions)                                   *)
(*       -> Reduce(aggregates of columns, grouping columns)                *)
(*         -> Map(aggregate arguments and grouping expressions)            *)
(* and the invariant RefSound says that it satisfies every judge of        *)
(* SplitTerms.tla in every reachable state: the judges are satisfiable,    *)
(* and they are exactly what Trace_Split.tla evaluates on the chains built *)
(* by the real `Split::and`.                                               *)
(***************************************************************************)
EXTENDS SplitTerms, SequencesExt, TLC
CONSTANTS Cols, Lits, F1, F2, Aggs, MaxG, MaxOuts, WithWhere
VARIABLES mode, groups, outs, where
vars == <<mode, groups, outs, where>>

NA0 == {Col(c) : c \in Cols} \cup {Lit(l) : l \in Lits}
NA1 == NA0 \cup {Fn(f, <<x>>) : f \in F1, x \in NA0} \cup {Fn(f, <<x, y>>) : f \in F2, x \in NA0, y \in NA0}
GroupTerms == {t \in NA1 : HasCol(t)}
AG == {Agg(g, u) : g \in Aggs, u \in GroupTerms}
Base(G) == G \cup {Lit(l) : l \in Lits} \cup AG
\* what a valid aggregated SELECT item looks like: scalar functions of aggregates, grouping expressions and literals
TopG(G) == Base(G) \cup {Fn(f, <<x>>) : f \in F1, x \in Base(G)} \cup {Fn(f, <<x, y>>) : f \in F2, x \in Base(G), y \in Base(G)}
Plain == NA1 \cup {Fn(f, <<x, y>>) : f \in F2, x \in NA1, y \in NA0}
Name(i) == "x" \o ToString(i)

Preds == {Fn("Gt", <<Col(c), y>>) : c \in Cols, y \in NA0}
Init == mode \in {"plain", "agg"} /\ groups = << >> /\ outs = << >> /\ where = << >>
AddGroup(g) == /\ mode = "agg" /\ outs = << >> /\ Len(groups) < MaxG /\ g \notin RangeOf(groups)
               /\ groups' = Append(groups, g) /\ UNCHANGED <<mode, outs, where>>
AddNamed(e) == /\ Len(outs) < MaxOuts /\ where = << >>
               /\ outs' = Append(outs, [n |-> Name(Len(outs) + 1), t |-> e]) /\ UNCHANGED <<mode, groups, where>>
\* the WHERE clause (given once; `MapBuilder::filter` / `ReduceBuilder::filter`, or a filter of the input, see relation.rs)
SetWhere(p) == WithWhere /\ where = << >> /\ outs # << >> /\ where' = <<p>> /\ UNCHANGED <<mode, groups, outs>>
Next == \/ \E p \in Preds : SetWhere(p)
        \/ \E g \in GroupTerms : AddGroup(g)
        \/ \E e \in (IF mode = "plain" THEN Plain ELSE TopG(RangeOf(groups))) : AddNamed(e)
Spec == Init /\ [][Next]_vars

(* ---- the reference compilation ---- *)
Aggregated == groups # << >> \/ \E o \in RangeOf(outs) : HasAgg(o.t)
AllAggs == UNION {AggSubs(o.t) : o \in RangeOf(outs)}
PreSeq == SetToSeq({a.a[1] : a \in AllAggs} \cup RangeOf(groups))
AggSeq == SetToSeq(AllAggs)
PName(u) == "p" \o ToString(CHOOSE i \in 1..Len(PreSeq) : PreSeq[i] = u)
RName(a) == "r" \o ToString(CHOOSE i \in 1..Len(AggSeq) : AggSeq[i] = a)
GName(g) == "g" \o ToString(CHOOSE i \in 1..Len(groups) : groups[i] = g)
RECURSIVE Post(_)
Post(t) == IF t \in RangeOf(groups) THEN Col(GName(t))
           ELSE IF t.k = "agg" THEN Col(RName(t))
           ELSE [k |-> t.k, n |-> t.n, a |-> [i \in 1..Len(t.a) |-> Post(t.a[i])]]
Layer(kind, defs, grp, flt) == [kind |-> kind, defs |-> defs, groups |-> grp, filter |-> flt, order |-> << >>]
RefChain ==
    IF ~Aggregated THEN << Layer("map", outs, << >>, where) >>
    ELSE << Layer("map", [i \in 1..Len(outs) |-> [n |-> outs[i].n, t |-> Post(outs[i].t)]], << >>, << >>),
            Layer("reduce",
                  [i \in 1..Len(AggSeq) |-> [n |-> RName(AggSeq[i]), t |-> Agg(AggSeq[i].n, Col(PName(AggSeq[i].a[1])))]]
                  \o [i \in 1..Len(groups) |-> [n |-> GName(groups[i]), t |-> Agg("First", Col(PName(groups[i])))]],
                  [i \in 1..Len(groups) |-> PName(groups[i])], << >>),
            Layer("map", [i \in 1..Len(PreSeq) |-> [n |-> "p" \o ToString(i), t |-> PreSeq[i]]], << >>, where) >>

RefSound == outs # << >> => ChainFailures(RefChain, groups, outs, where) = {}
\* the judges are not vacuous: a chain that forgets the grouping, or swaps two outputs, is refused
Forget == [RefChain EXCEPT ![2].groups = << >>]
RefTight == (Aggregated /\ groups # << >>) => "GroupsDenote" \in ChainFailures(Forget, groups, outs, where)
Swapped == [RefChain EXCEPT ![1].defs = [i \in 1..Len(outs) |-> [n |-> outs[i].n, t |-> RefChain[1].defs[Len(outs) + 1 - i].t]]]
RefTight2 == (Len(outs) = 2 /\ Norm(outs[1].t) # Norm(outs[2].t)) => "DenotesOuts" \in ChainFailures(Swapped, groups, outs, where)
\* a WHERE clause applied above the aggregation (a HAVING) is refused
Hoisted == [RefChain EXCEPT ![1].filter = where, ![Len(RefChain)].filter = << >>]
RefTight3 == (Aggregated /\ where # << >>) => "FilterDenotes" \in ChainFailures(Hoisted, groups, outs, where)
TypeOK == mode \in {"plain", "agg"} /\ Len(groups) <= MaxG /\ Len(outs) <= MaxOuts
=============================================================================
