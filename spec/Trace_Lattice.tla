---------------------------- MODULE Trace_Lattice ----------------------------
(***************************************************************************)
(* Judges of the data-type lattice (C11) on the real answers of the        *)
(* library for one pair of types (A, B) and every value of the universe:   *)
(*   SubsetSound        is_subset_of(A, B) and v in A  =>  v in B          *)
(*   UnionSound         v in A or v in B   =>  v in super_union(A, B)      *)
(*   IntersectionSound  v in A and v in B  =>  v in super_intersection     *)
(*   OwnType            v in type_of(v)                                    *)
(* where "in" is the library's own `contains`, and, independently of it,   *)
(*   ContainsIsMembership  for a primitive type and a value of its own     *)
(*                         kind, `contains` is membership in the interval  *)
(*                         set (denotation of DataTypes.tla)               *)
(*   UnionStructural / IntersectionStructural  the same two laws decided   *)
(*                         by the denotation of the decoded result when    *)
(*                         operands and result are of one primitive kind   *)
(***************************************************************************)
EXTENDS Integers, Sequences, FiniteSets, TLC, Json, IOUtils
CONSTANTS N, Rich
VARIABLES l, vals, bad
Rec == ndJsonDeserialize(IOEnv.TRACE)
DT == INSTANCE DataTypes

Prim(t) == t.k \in DT!OrdKinds
SameKind(t, v) == Prim(t) /\ v.k = t.k
Exact(t) == "inexact" \notin DOMAIN t

\* the variant a value natively belongs to
ClassOf(v) == CASE v.k \in {"none", "some"} -> "opt" [] v.k = "structv" -> "struct" [] v.k = "listv" -> "list" [] OTHER -> v.k
\* witnesses of the variant of one of the two operands, and the others (only reachable through the
\* cross-variant arm of `contains`)
Native(r, v) == ClassOf(v) \in {r.a.k, r.b.k}

Failures(r) ==
    IF r.op = "own" THEN (IF \E i \in 1..Len(r.own) : r.own[i] # 1 THEN {"OwnType"} ELSE {})
    ELSE IF r.panic THEN {"NoPanic"}
    ELSE LET n == Len(vals)
             subW == { i \in 1..n : r.sub /\ r.ca[i] = 1 /\ r.cb[i] # 1 }
             uniW == { i \in 1..n : r.u_ok /\ (r.ca[i] = 1 \/ r.cb0[i] = 1) /\ r.cu[i] # 1 }
             intW == { i \in 1..n : r.i_ok /\ (r.ca[i] = 1 /\ r.cb0[i] = 1) /\ r.ci[i] # 1 }
             Split(W, name) == (IF \E i \in W : Native(r, vals[i]) THEN {name} ELSE {})
                               \cup (IF \E i \in W : ~Native(r, vals[i]) THEN {name \o "Cross"} ELSE {})
    IN
    Split(subW, "SubsetSound") \cup Split(uniW, "UnionSound") \cup Split(intW, "IntersectionSound")
    \cup (IF \E i \in 1..n : SameKind(r.a, vals[i]) /\ (r.ca[i] = 1) # DT!Den(r.a, vals[i]) THEN {"ContainsIsMembership"} ELSE {})
    \cup (IF r.sub /\ Prim(r.a) /\ Prim(r.b) /\ r.a.k = r.b.k /\ ~(DT!Pts(r.a.ivs) \subseteq DT!Pts(r.b.ivs)) THEN {"SubsetStructural"} ELSE {})
    \cup (IF r.u_ok /\ Prim(r.a) /\ Prim(r.b) /\ r.a.k = r.b.k /\ Prim(r.u_abs) /\ r.u_abs.k = r.a.k
             /\ ~((DT!Pts(r.a.ivs) \cup DT!Pts(r.b.ivs)) \subseteq DT!Pts(r.u_abs.ivs)) THEN {"UnionStructural"} ELSE {})
    \cup (IF r.i_ok /\ Prim(r.a) /\ Prim(r.b) /\ r.a.k = r.b.k /\ Prim(r.i_abs) /\ r.i_abs.k = r.a.k
             /\ ~((DT!Pts(r.a.ivs) \cap DT!Pts(r.b.ivs)) \subseteq DT!Pts(r.i_abs.ivs)) THEN {"IntersectionStructural"} ELSE {})

Init == l = 1 /\ vals = << >> /\ bad = 0
Step == /\ l <= Len(Rec) /\ l' = l + 1
        /\ IF Rec[l].op = "values" THEN vals' = Rec[l].values /\ bad' = bad
           ELSE /\ vals' = vals
                /\ LET fs == Failures(Rec[l]) IN (\A f \in fs : PrintT(<<"JUDGE", l, f>>)) /\ bad' = bad + Cardinality(fs)
Spec == Init /\ [][Step]_<<l, vals, bad>>
Accepted == IF TLCGet("stats").diameter - 1 = Len(Rec) THEN PrintT(<<"ACCEPTED", Len(Rec)>>)
            ELSE Print(<<"TRACE NOT CONSUMED, stopped at", TLCGet("stats").diameter>>, FALSE)
=============================================================================
