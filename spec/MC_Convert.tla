----------------------------- MODULE MC_Convert -----------------------------
EXTENDS Convert, Json, SequencesExt
VARIABLES i
CaseSeq == SetToSeq(Cases)
Init == i = 0
Next == /\ i < Len(CaseSeq) /\ i' = i + 1
        /\ PrintT(<<"REPLAY", ToJson([a |-> CaseSeq[i + 1].a, to |-> CaseSeq[i + 1].to, may |-> MayConvert(KindOf(CaseSeq[i + 1].a), CaseSeq[i + 1].to)])>>)
Spec == Init /\ [][Next]_i
\* the graph has no conditional edge outside the declared ones, and every kind converts to text or is text/bytes
GraphSane == Conditional \subseteq Edge /\ \A k \in OrdKinds \ {"text"} : <<k, "text">> \in Edge
=============================================================================
