------------------------------ MODULE Trace_PUP ------------------------------
(***************************************************************************)
(* Judges of privacy-unit tracking (C05) on executions of the real         *)
(* privacy-unit-preserving rewriting: one record per compiled case with    *)
(* the rows returned on D and on D restricted to each unit (rank-encoded). *)
(*   PuNonNull  every row of the result on D carries a unit and a weight   *)
(*   Locality   for every unit u, the rows of the result on D attributed   *)
(*              to u are, as a bag, the result on D restricted to u        *)
(*   MatchedLocality  the same on the rows that have no NULL cell          *)
(***************************************************************************)
EXTENDS Integers, Sequences, FiniteSets, TLC, Json, IOUtils, SequencesExt

VARIABLES l, bad
Rec == ndJsonDeserialize(IOEnv.TRACE)
Occ(s, x) == Cardinality({ i \in 1..Len(s) : s[i] = x })
BagEq(a, b) == Len(a) = Len(b) /\ \A i \in 1..Len(a) : Occ(a, a[i]) = Occ(b, a[i])
IsNull(v) == v[1] = 0
NoNull(row) == \A j \in 1..Len(row) : ~IsNull(row[j])
Norm(v) == IF v[1] \in {1, 2} THEN <<1, v[2]>> ELSE <<v[1], v[2]>>
NormRows(rs) == [i \in 1..Len(rs) |-> [j \in 1..Len(rs[i]) |-> Norm(rs[i][j])]]

Failures(r) ==
    IF r.panic THEN {"NoPanic"}
    ELSE IF ~r.ok THEN {}
    ELSE
    (IF \E i \in 1..Len(r.full) : IsNull(r.full[i][r.pu]) \/ IsNull(r.full[i][r.w]) THEN {"PuNonNull"} ELSE {})
    \cup (IF \E k \in 1..Len(r.units) :
              ~BagEq(NormRows(SelectSeq(r.full, LAMBDA row : Norm(row[r.pu]) = Norm(r.units[k].pu))), NormRows(r.units[k].rows))
          THEN {"Locality"} ELSE {})
    \* the same on the rows without any NULL cell (in a join: matched pairs; a null-padded row of an outer join always has one):
    \* the recorded defect of the outer joins concerns the padded rows only, this judge keeps watching the matched ones
    \cup (IF \E k \in 1..Len(r.units) :
              ~BagEq(NormRows(SelectSeq(r.full, LAMBDA row : NoNull(row) /\ Norm(row[r.pu]) = Norm(r.units[k].pu))),
                     NormRows(SelectSeq(r.units[k].rows, NoNull)))
          THEN {"MatchedLocality"} ELSE {})

Init == l = 1 /\ bad = 0
Step == /\ l <= Len(Rec)
        /\ l' = l + 1
        /\ LET fs == Failures(Rec[l]) IN
           /\ \A f \in fs : PrintT(<<"JUDGE", l, f>>)
           /\ bad' = bad + Cardinality(fs)
           /\ (Rec[l].ok /\ ((fs = {}) # (Rec[l].model_nonnull /\ Rec[l].model_local))) => PrintT(<<"DRIFT", l, "prediction">>)
Spec == Init /\ [][Step]_<<l, bad>>
Accepted == IF TLCGet("stats").diameter - 1 = Len(Rec) THEN PrintT(<<"ACCEPTED", Len(Rec)>>)
            ELSE Print(<<"TRACE NOT CONSUMED, stopped at", TLCGet("stats").diameter>>, FALSE)
=============================================================================
