------------------------------- MODULE Visitor -------------------------------
(***************************************************************************)
(* The generic visitor of qrlew (visitor.rs): `Iterator::next` as a state  *)
(* machine over a graph of acceptors.  Nodes are identified by content     *)
(* (the implementation keys its state map by `&A` with the acceptor's own  *)
(* Eq / Hash), so a graph is a function from node to the *sequence* of its *)
(* dependencies (order matters, repetitions allowed: Join(t, t)).          *)
(*                                                                         *)
(* One action = one call of `next()`:                                      *)
(*   pop the stack; according to the state of the popped node              *)
(*   Push    mark Visit, push the node again, then its dependencies in     *)
(*           order; meeting a dependency that is being visited stops the   *)
(*           iteration (cycle) -- after the pushes made so far             *)
(*   Visit   all dependencies accepted: run the visitor, mark Accept;      *)
(*           otherwise stop                                                *)
(*   Accept  (a node pushed several times) nothing                         *)
(* `accept()` runs the iterator to the end and keeps the last yielded      *)
(* state: it returns iff that state is Accept and panics otherwise.        *)
(*                                                                         *)
(* Properties: termination; on acyclic graphs every reachable node is      *)
(* visited exactly once, after its dependencies, the root last, and        *)
(* `accept()` returns; on a cyclic graph the iteration stops and           *)
(* `accept()` panics (recorded finding of C18: a CTE named like a table it *)
(* reads).                                                                 *)
(***************************************************************************)
EXTENDS VisitorStep

CONSTANTS N,          \* nodes 1..N, the root is N
          MaxDeps,    \* at most this many dependencies per node
          Cyclic      \* TRUE: dependencies may point anywhere (cycles); FALSE: only to smaller nodes
Nodes == 1..N
RECURSIVE SeqsOver(_, _)
SeqsOver(S, k) == IF k = 0 THEN { << >> } ELSE LET R == SeqsOver(S, k - 1) IN R \cup { Append(s, x) : s \in R, x \in S }
DepChoices(n) == SeqsOver(IF Cyclic THEN Nodes ELSE 1..(n - 1), MaxDeps)

VARIABLES deps,     \* node -> sequence of nodes
          stack, st, order, halted, yielded
vars == <<deps, stack, st, order, halted, yielded>>

Init == /\ deps \in [Nodes -> UNION { DepChoices(n) : n \in Nodes }]
        /\ \A n \in Nodes : deps[n] \in DepChoices(n)
        /\ stack = <<N>> /\ st = [n \in Nodes |-> IF n = N THEN "push" ELSE "none"]
        /\ order = << >> /\ halted = FALSE /\ yielded = "start"

Cur == [stack |-> stack, st |-> st, order |-> order, halted |-> halted, yielded |-> yielded]
Apply(r) == stack' = r.stack /\ st' = r.st /\ order' = r.order /\ halted' = r.halted /\ yielded' = r.yielded /\ UNCHANGED deps
Enabled == ~halted /\ stack # << >>
StepPush == Enabled /\ st[TopOf(Cur)] = "push" /\ Apply(StepFn(deps, Cur))
StepVisit == Enabled /\ st[TopOf(Cur)] = "visit" /\ Apply(StepFn(deps, Cur))
StepAccepted == Enabled /\ st[TopOf(Cur)] = "accept" /\ Apply(StepFn(deps, Cur))
Next == StepPush \/ StepVisit \/ StepAccepted
Spec == Init /\ [][Next]_vars /\ WF_vars(Next)

Finished == halted \/ stack = << >>
\* what `accept()` does with the last yielded state
AcceptReturns == Finished => (yielded = "accept")

RECURSIVE ReachFrom(_, _)
ReachFrom(S, k) == IF k = 0 THEN S ELSE ReachFrom(S \cup UNION { { deps[n][i] : i \in 1..Len(deps[n]) } : n \in S }, k - 1)
Reachable == ReachFrom({N}, N)
Acyclic == \A n \in Nodes : \A i \in 1..Len(deps[n]) : deps[n][i] < n
Pos(n) == CHOOSE i \in 1..Len(order) : order[i] = n

(* ---- properties ------------------------------------------------------------- *)
Terminates == <>Finished
OnceEach == \A i, j \in 1..Len(order) : i # j => order[i] # order[j]
DagNeverHalts == Acyclic => ~halted
DagAllVisited == (Acyclic /\ Finished) => { order[i] : i \in 1..Len(order) } = Reachable
DagTopological == (Acyclic /\ Finished) => \A n \in Reachable : \A i \in 1..Len(deps[n]) : Pos(deps[n][i]) < Pos(n)
DagRootLast == (Acyclic /\ Finished) => (order # << >> /\ order[Len(order)] = N)
DagAcceptReturns == Acyclic => AcceptReturns
\* a cycle reachable from the root always stops the iteration before the root is accepted
CycleStops == (Finished /\ ~Acyclic /\ \E n \in Reachable : n \in ReachFrom({ deps[n][i] : i \in 1..Len(deps[n]) }, N)) => st[N] # "accept"
=============================================================================
