SPECIFICATION Spec
CONSTANTS N = 5
  Rich = FALSE
INVARIANT GraphSane
CHECK_DEADLOCK FALSE
