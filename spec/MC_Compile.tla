------------------------------ MODULE MC_Compile ------------------------------
(* TLC wrapper: the initial states are the cases; one REPLAY line each (no transition is explored here:
   the transitions come from the recorded traces, see Trace_Compile.tla). *)
EXTENDS Compile, Json
Emit == PrintT(<<"REPLAY", ToJson(case)>>)
NoNext == FALSE /\ UNCHANGED vars
MCSpec == Init /\ [][NoNext]_vars
=============================================================================
