------------------------------ MODULE Trace_DP ------------------------------
(***************************************************************************)
(* Judges of the differential-privacy compiler on what the real code built *)
(* and what its execution returned, one record per compiled case.  Numbers *)
(* are rank-encoded by the driver (lib/dpengine.py): the judges only need  *)
(* order and equality; sums of squares, noise calibration and the normal   *)
(* quantile are computed there and arrive as ranked values / booleans.     *)
(*                                                                         *)
(* C01  Sensitivity: squared L2 distance of each pre-noise column between  *)
(*      D and D minus one unit <= squared clip bound; SameBound: the bound *)
(*      used for clipping is the bound the noise was scaled by, and the    *)
(*      sigma in the relation is the sigma the mechanism computed          *)
(* C03  EveryMechanismRecorded (an injective matching of applied noise     *)
(*      ratios sigma/C to recorded noise multipliers that are not larger), *)
(*      TauRecorded, BudgetRespected, MechanismsAccounted                  *)
(* C04  ReleasedOnlyIfPublicOrOverTau, SingletonNeverAtNonPositiveNoise,   *)
(*      TauLargeEnough, CappedContribution                                 *)
(* C09  Exact: with noise and clipping inactive every group of the true    *)
(*      answer is present with one of the admissible exact values          *)
(***************************************************************************)
EXTENDS Integers, Sequences, FiniteSets, TLC, Json, IOUtils, SequencesExt

VARIABLES l, bad
Rec == ndJsonDeserialize(IOEnv.TRACE)
SeqSet(s) == { s[i] : i \in 1..Len(s) }

\* Hall's condition for matching every applied ratio a to a distinct recorded multiplier r <= a
Matched(applied, recorded) ==
    \A i \in 1..Len(applied) :
        Cardinality({ j \in 1..Len(recorded) : recorded[j] <= applied[i] })
            >= Cardinality({ k \in 1..Len(applied) : applied[k] <= applied[i] })

Norm(v) == IF v[1] \in {1, 2} THEN <<1, v[2]>> ELSE <<v[1], v[2]>>

Failures(r) ==
    IF r.panic THEN {"NoPanic"}
    ELSE IF ~r.ok THEN {}
    ELSE
    (IF \E i \in 1..Len(r.sens) : r.sens[i].checked /\ r.sens[i].dist2 > r.sens[i].c2 THEN {"Sensitivity"} ELSE {})
    \cup (IF \E i \in 1..Len(r.bounds) : r.bounds[i].clip # r.bounds[i].bound \/ r.bounds[i].sigma_ir # r.bounds[i].sigma_ev THEN {"SameBound"} ELSE {})
    \cup (IF ~Matched(r.applied, r.recorded) THEN {"EveryMechanismRecorded"} ELSE {})
    \cup (IF r.tau_used.has /\ ~(r.tau_recorded.has /\ r.tau_recorded.eps >= r.tau_used.eps /\ r.tau_recorded.delta >= r.tau_used.delta)
          THEN {"TauRecorded"} ELSE {})
    \cup (IF ~r.budget_ok THEN {"BudgetRespected"} ELSE {})
    \cup (IF ~r.accounted THEN {"MechanismsAccounted"} ELSE {})
    \cup (IF \E i \in 1..Len(r.keys) : r.keys[i].released /\ ~r.keys[i].public /\ ~(r.keys[i].cpn > r.keys[i].tau) THEN {"ReleasedOnlyIfPublicOrOverTau"} ELSE {})
    \cup (IF \E i \in 1..Len(r.keys) : r.keys[i].released /\ ~r.keys[i].public /\ r.keys[i].single /\ ~r.keys[i].noise_pos THEN {"SingletonNeverAtNonPositiveNoise"} ELSE {})
    \cup (IF ~r.tau_ok THEN {"TauLargeEnough"} ELSE {})
    \cup (IF \E i \in 1..Len(r.unit_groups) : r.unit_groups[i] > r.cu THEN {"CappedContribution"} ELSE {})
    \cup (IF \E i \in 1..Len(r.exact) :
              \/ (r.exact[i].must /\ ~r.exact[i].present)
              \/ (r.exact[i].present /\ Norm(r.exact[i].final) \notin { Norm(r.exact[i].allowed[j]) : j \in 1..Len(r.exact[i].allowed) })
          THEN {"Exact"} ELSE {})

Init == l = 1 /\ bad = 0
Step == /\ l <= Len(Rec)
        /\ l' = l + 1
        /\ LET fs == Failures(Rec[l]) IN
           /\ \A f \in fs : PrintT(<<"JUDGE", l, f>>)
           /\ bad' = bad + Cardinality(fs)
Spec == Init /\ [][Step]_<<l, bad>>
Accepted == IF TLCGet("stats").diameter - 1 = Len(Rec) THEN PrintT(<<"ACCEPTED", Len(Rec)>>)
            ELSE Print(<<"TRACE NOT CONSUMED, stopped at", TLCGet("stats").diameter>>, FALSE)
=============================================================================
