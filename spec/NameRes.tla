------------------------------- MODULE NameRes -------------------------------
(***************************************************************************)
(* Resolution of a column reference in a FROM clause with joins (C15):     *)
(* tables t(a,b), u(a,c), v(b,c); a chain of up to three FROM items, each  *)
(* optionally aliased, joined by CROSS JOIN / JOIN .. USING (first common  *)
(* column) / NATURAL JOIN; optionally a CTE named t that shadows the base  *)
(* table t with other columns.  A reference is n or q.n.                   *)
(*                                                                         *)
(* SQL rule: an unqualified name denotes the single visible column of that *)
(* name (a column merged by USING / NATURAL counts once); if several are   *)
(* visible the reference is ambiguous and the query must be refused; a     *)
(* qualified name denotes the column of the item with that qualifier.      *)
(***************************************************************************)
EXTENDS Integers, Sequences, FiniteSets, TLC

CONSTANTS MaxItems, WithPath
BaseCols == [t |-> <<"a", "b">>, u |-> <<"a", "c">>, v |-> <<"b", "c">>]
\* a fourth base table lives under the two-part path s.w (columns a = 4, b = 5).  `s.w` always denotes it; the bare name
\* `w` denotes it too (unique suffix of a path) unless the query defines a CTE named w
\* (`WITH w AS (SELECT a AS a, c AS b FROM u)`), which then is what `w` - and only `w` - denotes.
Pathed == {"s.w", "w"}
\* the CTE `WITH t AS (SELECT a AS a, c AS b FROM u)`: t now has columns a and b, b holding u.c
ColsOf(tbl, cte) == IF tbl \in Pathed \/ (cte /\ tbl = "t") THEN <<"a", "b">> ELSE BaseCols[tbl]
\* marker value of a column: a = 1, b = 2, c = 3 in the base tables

NRank(n) == CASE n = "a" -> 1 [] n = "b" -> 2 [] n = "c" -> 3
FirstOf(S) == CHOOSE n \in S : \A m \in S : NRank(n) <= NRank(m)
Qual(it) == IF it.as = "" THEN it.t ELSE it.as
SeqSet(s) == { s[i] : i \in 1..Len(s) }

VARIABLES cte, ctew, items, joins, merged, ref, phase
\* items: sequence of [t, as]; joins[i]: how item i+1 is joined; merged: names merged so far
vars == <<cte, ctew, items, joins, merged, ref, phase>>
ValueOf(tbl, n, c) == IF tbl = "s.w" \/ (tbl = "w" /\ ~ctew) THEN (IF n = "a" THEN 4 ELSE 5)
                      ELSE IF tbl = "w" THEN (IF n = "a" THEN 1 ELSE 3)
                      ELSE IF c /\ tbl = "t" /\ n = "b" THEN 3 ELSE CASE n = "a" -> 1 [] n = "b" -> 2 [] n = "c" -> 3

Init == cte \in BOOLEAN /\ ctew \in (IF WithPath THEN BOOLEAN ELSE {FALSE}) /\ items = << >> /\ joins = << >> /\ merged = {} /\ ref = [q |-> "", n |-> ""] /\ phase = "from"

\* names visible without qualifier, with multiplicity: merged names once, other columns once per item
Visible(n) == (IF n \in merged THEN 1 ELSE 0)
              + Cardinality({ i \in 1..Len(items) : n \in SeqSet(ColsOf(items[i].t, cte)) /\ n \notin merged })
LeftNames == { n \in {"a", "b", "c"} : Visible(n) > 0 }

AddItem == /\ phase = "from" /\ Len(items) < MaxItems
           /\ \E tbl \in {"t", "u", "v"} \cup (IF WithPath THEN Pathed ELSE {}) : \E al \in {"", "x" \o ToString(Len(items) + 1)} :
                 LET it == [t |-> tbl, as |-> al] IN
                 /\ (tbl \in Pathed => al # "")      \* (these items are always aliased: the qualifier of a bare `s.w` is not modelled)
                 /\ Qual(it) \notin { Qual(items[i]) : i \in 1..Len(items) }
                 /\ IF items = << >> THEN items' = <<it>> /\ joins' = joins /\ merged' = merged
                    ELSE LET common == { n \in SeqSet(ColsOf(tbl, cte)) : n \in LeftNames }
                             \* USING / NATURAL need every shared name to be visible exactly once on the left
                             clean == \A n \in common : Visible(n) = 1
                         IN \E j \in {"cross", "using", "natural"} :
                               /\ (j # "cross" => common # {} /\ clean)
                               /\ items' = Append(items, it)
                               /\ joins' = Append(joins, [k |-> j, cols |-> IF j = "natural" THEN common
                                                                           ELSE IF j = "using" THEN {FirstOf(common)} ELSE {}])
                               /\ merged' = merged \cup (IF j = "natural" THEN common
                                                         ELSE IF j = "using" THEN {FirstOf(common)} ELSE {})
           /\ UNCHANGED <<cte, ctew, ref, phase>>

PickRef == /\ phase = "from" /\ items # << >>
           /\ \E q \in {""} \cup { Qual(items[i]) : i \in 1..Len(items) } : \E n \in {"a", "b", "c"} :
                 ref' = [q |-> q, n |-> n]
           /\ phase' = "done"
           /\ UNCHANGED <<cte, ctew, items, joins, merged>>

Next == AddItem \/ PickRef
Spec == Init /\ [][Next]_vars

(* ---- the rule ------------------------------------------------------------------- *)
Done == phase = "done"
Resolution ==
    IF ref.q = ""
    THEN IF Visible(ref.n) = 0 THEN [k |-> "unknown"]
         ELSE IF Visible(ref.n) > 1 THEN [k |-> "ambiguous"]
         ELSE LET i == CHOOSE i \in 1..Len(items) : ref.n \in SeqSet(ColsOf(items[i].t, cte))
              IN [k |-> "bound", v |-> ValueOf(items[i].t, ref.n, cte)]
    ELSE LET i == CHOOSE i \in 1..Len(items) : Qual(items[i]) = ref.q
         IN IF ref.n \in SeqSet(ColsOf(items[i].t, cte)) THEN [k |-> "bound", v |-> ValueOf(items[i].t, ref.n, cte)]
            ELSE [k |-> "unknown"]
\* a name is never both bound and offered by two visible columns
NeverArbitrary == (Done /\ ref.q = "" /\ Visible(ref.n) > 1) => Resolution.k = "ambiguous"
=============================================================================
