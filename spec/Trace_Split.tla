----------------------------- MODULE Trace_Split -----------------------------
(***************************************************************************)
(* Judging of the chains built by the real `Split::and`: one record per    *)
(* reachable state of Split.tla with the layers the library produced for   *)
(* it.  Every judge of SplitTerms.tla (the ones RefSound establishes for   *)
(* the reference compilation) is evaluated on the real chain.              *)
(***************************************************************************)
EXTENDS SplitTerms, Json, IOUtils, TLC
VARIABLES l, bad
Rec == ndJsonDeserialize(IOEnv.TRACE)
\* (status "error": the SQL entry point refused the query with an Err - allowed for Split.tla's fragment only if listed as such)
Failures(r) == IF r.status = "panic" THEN {"SplitPanics"} ELSE IF r.status = "error" THEN {"Refused"} ELSE ChainFailures(r.chain, r.groups, r.outs, r.where)
TInit == l = 1 /\ bad = 0
Step == /\ l <= Len(Rec) /\ l' = l + 1
        /\ LET fs == Failures(Rec[l]) IN (\A f \in fs : PrintT(<<"JUDGE", l, f>>)) /\ bad' = bad + Cardinality(fs)
TSpec == TInit /\ [][Step]_<<l, bad>>
Accepted == IF TLCGet("stats").diameter - 1 = Len(Rec) THEN PrintT(<<"ACCEPTED", Len(Rec)>>)
            ELSE Print(<<"TRACE NOT CONSUMED, stopped at", TLCGet("stats").diameter>>, FALSE)
=============================================================================
