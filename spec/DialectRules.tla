------------------------------- MODULE DialectRules ----------------------------
(***************************************************************************)
(* Identifier quoting of the eight target dialects (C17) and the scanner   *)
(* that reads a quoted identifier back.                                    *)
(*                                                                         *)
(* Writing: the translator wraps the identifier in the dialect's quote     *)
(* character, doubling every occurrence of that character inside           *)
(* (dialect_translation/*.rs: identifier -> ast::Ident::with_quote, whose  *)
(* Display escapes the quote).  Reading: the dialect's tokenizer opens a   *)
(* quoted identifier on the quote character, takes characters, treats a    *)
(* doubled quote as one literal quote and closes on a single one.          *)
(*                                                                         *)
(* The scanner is a state machine (one character per step); the design     *)
(* property is that reading what was written gives the identifier back,    *)
(* whatever characters it contains (the other dialects' quote characters,  *)
(* spaces, dots, upper case, a reserved word).                             *)
(***************************************************************************)
EXTENDS Integers, Sequences, FiniteSets, TLC

Dialect == {"postgresql", "sqlite", "mysql", "mssql", "bigquery", "hive", "databricks", "redshift"}
\* abstract characters: a lower-case letter, an upper-case letter, space, ", `, ', ], .
Chars == {"a", "B", "sp", "dq", "bt", "sq", "rb", "dot"}
QuoteOf(d) == IF d \in {"postgresql", "sqlite", "mssql", "redshift"} THEN "dq" ELSE "bt"
\* the library reads back every dialect but SQLite
ReadsBack(d) == d # "sqlite"


RECURSIVE Doubled(_, _)
Doubled(s, q) == IF s = << >> THEN << >> ELSE (IF Head(s) = q THEN <<q, q>> ELSE <<Head(s)>>) \o Doubled(Tail(s), q)
Quoted(d, s) == <<QuoteOf(d)>> \o Doubled(s, QuoteOf(d)) \o <<QuoteOf(d)>>
=============================================================================
