------------------------------ MODULE JoinCases ------------------------------
(***************************************************************************)
(* Uniqueness through joins (C14): l(x, p) JOIN r(y, q) ON an equality of  *)
(* x and y written in either operand order, for the four join kinds, with  *)
(* x and / or y declared UNIQUE, over every small pair of tables that      *)
(* honours the declared constraints.  The rule of SQL: a column of one     *)
(* side stays duplicate-free in the result only if every row of that side  *)
(* matches at most one row of the other side, i.e. if the *other* side's   *)
(* join column is unique.                                                  *)
(***************************************************************************)
EXTENDS Integers, Sequences, FiniteSets, TLC

Vals == 0..2
RECURSIVE SeqsUpTo(_, _)
SeqsUpTo(S, n) == IF n = 0 THEN { << >> } ELSE LET R == SeqsUpTo(S, n - 1) IN R \cup { Append(s, v) : s \in R, v \in S }
Distinct(s) == \A i, j \in 1..Len(s) : i # j => s[i] # s[j]
\* the join column of a table (the second column is the row number, so that rows are distinguishable)
KeyCols(unique) == { s \in SeqsUpTo(Vals, 3) : unique => Distinct(s) }
Kinds == {"inner", "left", "right", "full"}
Cases == UNION { { [lu |-> u[1], ru |-> u[2], rev |-> rev, kind |-> k, l |-> l, r |-> r] :
                     rev \in BOOLEAN, k \in Kinds, l \in KeyCols(u[1]), r \in KeyCols(u[2]) } : u \in BOOLEAN \X BOOLEAN }

\* the result of the join on the key columns: pairs <<x or -1, y or -1>> (-1: padded with NULL)
Matches(c) == { <<i, j>> \in (1..Len(c.l)) \X (1..Len(c.r)) : c.l[i] = c.r[j] }
Result(c) ==
    LET m == Matches(c)
        lonly == { i \in 1..Len(c.l) : ~\E j \in 1..Len(c.r) : <<i, j>> \in m }
        ronly == { j \in 1..Len(c.r) : ~\E i \in 1..Len(c.l) : <<i, j>> \in m }
    IN [pairs |-> m, lpad |-> IF c.kind \in {"left", "full"} THEN lonly ELSE {}, rpad |-> IF c.kind \in {"right", "full"} THEN ronly ELSE {}]
\* are the non-null values of the left (right) key column pairwise distinct in the result?
LeftStaysUnique(c) == LET res == Result(c) IN
    \A p1, p2 \in res.pairs : (p1 # p2) => c.l[p1[1]] # c.l[p2[1]]
RightStaysUnique(c) == LET res == Result(c) IN
    \A p1, p2 \in res.pairs : (p1 # p2) => c.r[p1[2]] # c.r[p2[2]]
\* the rule, as a theorem of the model: uniqueness of one side survives when both key columns are unique
RuleSound == \A c \in Cases : (c.lu /\ c.ru) => (LeftStaysUnique(c) /\ RightStaysUnique(c))
\* ... and it does not in general when only that side's column is unique (witnessed in the case space)
RuleTight == \E c \in Cases : c.lu /\ ~c.ru /\ ~LeftStaysUnique(c)
=============================================================================
