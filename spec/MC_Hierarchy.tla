----------------------------- MODULE MC_Hierarchy -----------------------------
EXTENDS Hierarchy, Json
Entries == [i \in 1..Cardinality(DOMAIN h) |-> LET p == SortedKeys(DOMAIN h)[i] IN [path |-> p, obj |-> h[p]]]
Emit == PrintT(<<"REPLAY", ToJson([entries |-> Entries, last |-> last])>>)
=============================================================================
