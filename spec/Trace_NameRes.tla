---------------------------- MODULE Trace_NameRes ----------------------------
(***************************************************************************)
(* Judges of column resolution on the real compiler: one record per query  *)
(* with the rule's verdict (NameRes.tla), the outcome of the real          *)
(* compilation and, when it compiled, the marker value its execution       *)
(* returned for the referenced column.                                     *)
(*   AmbiguousRefused   an ambiguous reference is not compiled             *)
(*   UnknownRefused     a reference to no visible column is not compiled   *)
(*   BoundCorrectly     a compiled reference returns the marker of the     *)
(*                      column the rule binds it to                        *)
(***************************************************************************)
EXTENDS Integers, Sequences, FiniteSets, TLC, Json, IOUtils
VARIABLES l, bad
Rec == ndJsonDeserialize(IOEnv.TRACE)
Failures(r) ==
    (IF r.pred = "ambiguous" /\ r.outcome = "ok" THEN {"AmbiguousRefused"} ELSE {})
    \cup (IF r.pred = "unknown" /\ r.outcome = "ok" THEN {"UnknownRefused"} ELSE {})
    \cup (IF r.pred = "bound" /\ r.outcome = "ok" /\ r.has_value /\ r.value # r.expect THEN {"BoundCorrectly"} ELSE {})
Init == l = 1 /\ bad = 0
Step == /\ l <= Len(Rec) /\ l' = l + 1
        /\ LET fs == Failures(Rec[l]) IN (\A f \in fs : PrintT(<<"JUDGE", l, f>>)) /\ bad' = bad + Cardinality(fs)
        /\ (Rec[l].engine # "none" /\ Rec[l].engine # Rec[l].pred) => PrintT(<<"DRIFT", l, "rule_vs_engine">>)
Spec == Init /\ [][Step]_<<l, bad>>
Accepted == IF TLCGet("stats").diameter - 1 = Len(Rec) THEN PrintT(<<"ACCEPTED", Len(Rec)>>)
            ELSE Print(<<"TRACE NOT CONSUMED, stopped at", TLCGet("stats").diameter>>, FALSE)
=============================================================================
