CONSTANTS
  Alphabet = {1, 2}
  MaxLen = 2
  Objects = {1, 2}
SPECIFICATION Spec
INVARIANTS FoldIsRule ExactFirst NeverArbitrary Emit
CHECK_DEADLOCK FALSE
