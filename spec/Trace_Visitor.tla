---------------------------- MODULE Trace_Visitor ----------------------------
(***************************************************************************)
(* Trace validation of the real `visitor::Iterator`: one record per graph  *)
(* with every (node, state) the real iterator yielded and what `accept()`  *)
(* did.  The real sequence must be exactly the run of the step function of *)
(* VisitorStep.tla (the machine is deterministic), and `accept()` must     *)
(* return iff the model's last yielded state is Accept.                    *)
(***************************************************************************)
EXTENDS VisitorStep, Json, IOUtils
VARIABLES l, bad
Rec == ndJsonDeserialize(IOEnv.TRACE)
\* (the driver writes an empty dependency list as <<0>>: the JSON reader needs homogeneous, non-empty arrays)
Deps(r) == [i \in 1..r.n |-> IF r.deps[i] = <<0>> THEN << >> ELSE r.deps[i]]
Steps(r) == IF r.steps = << <<0, "none">> >> THEN << >> ELSE r.steps     \* (same convention for "yielded nothing")
ModelRun(r) == RunFrom(Deps(r), IterInit(1..r.n, r.n), << >>, 10000)
Acyclic(r) == \A i \in 1..r.n : \A j \in 1..Len(Deps(r)[i]) : Deps(r)[i][j] < i
Failures(r) ==
    LET m == ModelRun(r) IN
    (IF r.iter # "ok" THEN {"IteratorPanics"} ELSE {})
    \cup (IF r.iter = "ok" /\ Steps(r) # m.yields THEN {"StepsConform"} ELSE {})
    \cup (IF (r.accept = "returns") # (m.final.yielded = "accept") THEN {"AcceptConforms"} ELSE {})
    \* the design property on the real code: on a DAG accept() returns and every node is accepted once
    \cup (IF Acyclic(r) /\ r.accept # "returns" THEN {"DagAcceptReturns"} ELSE {})
    \cup (IF Acyclic(r) /\ r.iter = "ok" /\ \E i, j \in 1..Len(Steps(r)) : i # j /\ Steps(r)[i] = Steps(r)[j] /\ Steps(r)[i][2] = "accept" THEN {"DagOnceEach"} ELSE {})
TInit == l = 1 /\ bad = 0
Step == /\ l <= Len(Rec) /\ l' = l + 1
        /\ LET fs == Failures(Rec[l]) IN (\A f \in fs : PrintT(<<"JUDGE", l, f>>)) /\ bad' = bad + Cardinality(fs)
TSpec == TInit /\ [][Step]_<<l, bad>>
Accepted == IF TLCGet("stats").diameter - 1 = Len(Rec) THEN PrintT(<<"ACCEPTED", Len(Rec)>>)
            ELSE Print(<<"TRACE NOT CONSUMED, stopped at", TLCGet("stats").diameter>>, FALSE)
=============================================================================
