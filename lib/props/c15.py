"""C15 — name resolution: exact or unique-suffix match, never an arbitrary candidate.
 (1) spec/Hierarchy.tla: the path map; TLC checks on every map over a small alphabet that the implementation's fold computes
     the lookup rule; every explored map is replayed into the real Hierarchy (get_key_value, get, filter, prepend for every
     lookup path) and the real answers are judged against the rule by TLC (spec/Trace_Hierarchy.tla).
 (2) spec/NameRes.tla: column references in FROM clauses with joins, aliases, USING / NATURAL and a CTE shadowing a table; every
     explored query is compiled by the real code and, when it compiles, executed on a marker database; TLC judges that ambiguous
     and unknown references are refused and that accepted ones return the marker of the column the rule binds (spec/Trace_NameRes.tla)."""
import json
import os
import time

import common as C

PID = "C15"
MARK = {"a": 1, "b": 2, "c": 3}


def sql_of(p):
    items, joins = p["items"], p["joins"]
    f = items[0]["t"] + (" AS " + items[0]["as"] if items[0]["as"] else "")
    for it, j in zip(items[1:], joins):
        r = it["t"] + (" AS " + it["as"] if it["as"] else "")
        if j["k"] == "cross":
            f += " CROSS JOIN " + r
        elif j["k"] == "natural":
            f += " NATURAL JOIN " + r
        else:
            f += f" JOIN {r} USING ({', '.join(sorted(j['cols']))})"
    ref = (p["ref"]["q"] + "." if p["ref"]["q"] else "") + p["ref"]["n"]
    ctes = (["t AS (SELECT a AS a, c AS b FROM u)"] if p["cte"] else []) + (["w AS (SELECT a AS a, c AS b FROM u)"] if p.get("ctew") else [])
    cte = "WITH " + ", ".join(ctes) + " " if ctes else ""
    return f"{cte}SELECT {ref} AS r FROM {f}"


def tables():
    def col(n):
        return {"n": n, "t": {"k": "int", "ivs": [[0, 5]]}, "c": None}
    return [{"name": "t", "size": 1, "cols": [col("a"), col("b")], "rows": [[1, 2]]},
            {"name": "u", "size": 1, "cols": [col("a"), col("c")], "rows": [[1, 3]]},
            {"name": "v", "size": 1, "cols": [col("b"), col("c")], "rows": [[2, 3]]},
            # a base table under the two-part path s.w (markers 4 and 5); a CTE may be named w
            {"name": "w", "path": ["s", "w"], "size": 1, "cols": [col("a"), col("b")], "rows": [[4, 5]]}]


def run(tier, t0):
    rep = C.Reporter(PID)
    # ---- (1) the path map
    maxlen, objs = (2, "{1, 2}") if tier == "quick" else (3, "{1}")
    r = C.tlc("MC_Hierarchy", "MC_Hierarchy.cfg", "hi_mc", workers=8, timeout=3000, constants={"MaxLen": maxlen, "Objects": objs}, extra=["-coverage", "1"], heap="16g")
    C.require_model_ok(r, "Hierarchy.tla")
    maps = r.json_payloads("REPLAY")
    wd = C.workdir("hi")
    cp = os.path.join(wd, "maps.ndjson")
    C.write_ndjson(cp, maps)
    op = os.path.join(wd, "obs.ndjson")
    C.qv(["hi-replay", "--maxlen", str(maxlen)], stdin_path=cp, stdout_path=op)
    obs = C.read_ndjson(op)
    tr, fails, _ = C.validate_trace("Trace_Hierarchy", "Trace_Hierarchy.cfg", op, "hi_judge", constants={"MaxLen": maxlen, "Objects": objs}, timeout=3000, heap="16g")
    for i, judge in fails:
        o = obs[i - 1]
        rep.fail(f"hierarchy/{judge}", f"judge {judge} failed on the real Hierarchy", {"engine": "hi-replay", "case": {"entries": o["entries"], "lookups": o["lookups"][:20]}})
    # self-test: one corrupted lookup answer must be flagged
    import copy
    bad = copy.deepcopy([o for o in obs if any(x["found"] for x in o["lookups"])][0])
    k = [i for i, x in enumerate(bad["lookups"]) if x["found"]][0]
    bad["lookups"][k]["found"] = False
    sp = os.path.join(wd, "selftest.ndjson")
    C.write_ndjson(sp, [bad])
    _, f2, _ = C.validate_trace("Trace_Hierarchy", "Trace_Hierarchy.cfg", sp, "hi_selftest", constants={"MaxLen": maxlen, "Objects": objs})
    if not any(j == "LookupRule" for _, j in f2):
        raise C.ToolError("binding self-test failed (hierarchy)")
    # ---- (2) column references in queries
    r2 = C.tlc("MC_NameRes", "MC_NameRes.cfg", "nr_mc", workers=8, timeout=3000, constants={"MaxItems": 2, "WithPath": "TRUE"}, heap="16g")
    C.require_model_ok(r2, "NameRes.tla")
    qs = r2.json_payloads("REPLAY")
    if tier != "quick":
        r3 = C.tlc("MC_NameRes", "MC_NameRes.cfg", "nr_mc3", workers=8, timeout=3000, constants={"MaxItems": 3, "WithPath": "FALSE"}, heap="16g")
        C.require_model_ok(r3, "NameRes.tla (three items)")
        have = {json.dumps(q, sort_keys=True) for q in qs}
        qs += [q for q in r3.json_payloads("REPLAY") if json.dumps(q, sort_keys=True) not in have]
        r2.distinct += r3.distinct
        r2.generated += r3.generated
    cases = [{"id": i, "sql": sql_of(p), "tables": tables()} for i, p in enumerate(qs)]
    cp2 = os.path.join(wd, "queries.ndjson")
    C.write_ndjson(cp2, cases)
    op2 = os.path.join(wd, "qobs.ndjson")
    C.qv(["sql-run"], stdin_path=cp2, stdout_path=op2, timeout=3000)
    qobs = C.read_ndjson(op2)
    recs = []
    for p, c, o in zip(qs, cases, qobs):
        st = o["stages"]
        build = st.get("build", st.get("parse", "err"))
        outcome = "ok" if build == "ok" else ("panic" if str(build).startswith("panic") else "err")
        rows = o.get("rend", {}).get("rows") if outcome == "ok" else None
        has_value = bool(rows) and rows[0][0] is not None and isinstance(rows[0][0], int)
        # the engine's own verdict on the original text (a second opinion on the rule)
        eo = st.get("exec_orig")
        if outcome != "ok":
            engine = "none"
        elif eo == "ok":
            engine = "bound"
        elif "ambiguous" in str(eo):
            engine = "ambiguous"
        elif "no such column" in str(eo):
            engine = "unknown"
        else:
            engine = "none"
        recs.append({"pred": p["res"]["k"], "expect": p["res"].get("v", 0), "outcome": outcome, "has_value": has_value,
                     "value": rows[0][0] if has_value else 0, "engine": engine})
    tp = os.path.join(wd, "qtrace.ndjson")
    C.write_ndjson(tp, recs)
    tr2, fails2, drifts2 = C.validate_trace("Trace_NameRes", "Trace_NameRes.cfg", tp, "nr_judge", timeout=3000)
    for i, judge in fails2:
        p, c = qs[i - 1], cases[i - 1]
        shape = "+".join([j["k"] for j in p["joins"]]) or "single"
        pathed = "+path" if any(it["t"] in ("s.w", "w") for it in p["items"]) else ""
        key = f"names/{judge}/{shape}{'+cte_shadow' if p['cte'] else ''}{pathed}{'+cte_w' if p.get('ctew') else ''}/{'qualified' if p['ref']['q'] else 'unqualified'}"
        rep.fail(key, f"judge {judge} failed: {c['sql']}", {"engine": "sql-run", "case": {"sql": c["sql"], "tables": c["tables"], "rule": p["res"], "observed": recs[i - 1]}})
    code, viol, known = rep.finish()
    outc = {}
    for rr in recs:
        k = f"{rr['pred']}->{rr['outcome']}"
        outc[k] = outc.get(k, 0) + 1
    coverage = {
        "states": r.distinct + r2.distinct, "transitions": r.generated + r2.generated, "traces_validated_against_impl": len(maps) + len(cases),
        "samples": [maps[len(maps) // 2], cases[len(cases) // 3]["sql"], cases[-1]["sql"]],
        "evaluations": sum(len(o["lookups"]) for o in obs) + len(cases),
        "distinct_nontrivial": sum(1 for o in obs if len(o["entries"]) >= 2) + sum(1 for rr in recs if rr["pred"] != "bound" or rr["has_value"]),
        "rule": "every path map over a 2-letter alphabet with paths of length <= MaxLen reachable by insert / prepend / filter, every lookup path of length 0..MaxLen+1; every FROM chain of <= MaxItems items over t(a,b), u(a,c), v(b,c) with aliases, CROSS / USING / NATURAL, with and without a CTE shadowing t, (two items) a base table under the path s.w referenced as s.w or w with and without a CTE named w, every reference n or q.n; non-trivial = map with at least two entries / reference that is ambiguous, unknown or bound with an observed marker",
        "exhaustive": True,
        "hierarchy": {"MaxLen": maxlen, "maps": len(maps), "lookups_judged": sum(len(o["lookups"]) for o in obs), "invariants": ["FoldIsRule", "ExactFirst", "NeverArbitrary"],
                      "action_coverage": {k: v for k, v in r.action_coverage().items() if k in ("Insert", "DoPrepend", "DoFilter")}},
        "queries": {"cases": len(cases), "verdict_vs_outcome": outc, "rule_vs_engine_disagreements": len(drifts2)},
        "binding_selftest": {"corrupted_lookup_flagged": True},
        "failures_by_key": {k: v["count"] for k, v in rep.by_key.items()}, "known_findings_reproduced": known, "checker_cmd": tr.cmd,
    }
    C.write_evidence(PID, tier, "model_checking", coverage,
                     ["marker database: single-row tables with a = 1, b = 2, c = 3 (the CTE maps u.c to t.b); s.w has a = 4, b = 5 and lives in an attached SQLite database named s",
                      "a panic while compiling an ambiguous or unknown reference counts as a refusal here (the panic itself is reported by C18)",
                      "SQLite's own name resolution is recorded as a second opinion on the rule (disagreements are reported as drift)"], time.time() - t0, viol)
    return code


def replay(path):
    print("re-run `bin/check C15`; the failing case is in the replay file")
    return 2
