"""C18 — compilation is total on the supported fragment: errors, never panics (lib/totengine.py, spec/Compile.tla),
plus the panics met by the relational engine on the queries of spec/QueryShapes.tla (lib/relengine.py)."""
import json
import os
import random
import time

import common as C
import relengine
import totengine as T

PID = "C18"


def visitor_part(rep):
    """spec/Visitor.tla: the generic visitor every compilation stage is built on terminates, visits a DAG in topological
    order exactly once and never panics on it; on a cyclic dependency table it stops and `accept()` panics (the model says
    so too: that panic is the recorded C18 finding about CTEs named like a table they read, not a new one)."""
    import copy
    ra = C.tlc("MC_Visitor", "MC_Visitor.cfg", "vis_dag", workers=4, timeout=900)
    C.require_model_ok(ra, "Visitor.tla (acyclic graphs)")
    rc = C.tlc("MC_Visitor", "MC_Visitor_cyclic.cfg", "vis_cyc", workers=4, timeout=900)
    C.require_model_ok(rc, "Visitor.tla (cyclic tables)")
    graphs = ra.json_payloads("REPLAY") + rc.json_payloads("REPLAY")
    wd = C.workdir("vis")
    cp, op = os.path.join(wd, "cases.ndjson"), os.path.join(wd, "obs.ndjson")
    C.write_ndjson(cp, graphs)
    C.qv(["vi-replay"], stdin_path=cp, stdout_path=op, timeout=900)
    obs = C.read_ndjson(op)
    recs = [{"n": o["n"], "deps": o["deps"], "steps": o["steps"] or [[0, "none"]], "iter": o["iter"], "accept": "returns" if o["accept"] == "returns" else "panic"} for o in obs]
    # TLC's JSON reader needs a non-empty, homogeneous `deps`: the empty dependency list is written [0] and stripped by the spec
    for x in recs:
        x["deps"] = [d if d else [0] for d in x["deps"]]
    tp = os.path.join(wd, "trace.ndjson")
    C.write_ndjson(tp, recs)
    tr, fails, _ = C.validate_trace("Trace_Visitor", "Trace_Visitor.cfg", tp, "vis_judge", timeout=1800)
    for i, judge in fails:
        o = obs[i - 1]
        rep.fail(f"Visitor/{judge}/{'dag' if all(d < k + 1 for k, ds in enumerate(o['deps']) for d in ds) else 'cyclic'}", f"judge {judge} failed on the real visitor::Iterator",
                 {"engine": "vi-replay", "graph": {"n": o["n"], "deps": o["deps"]}, "real_steps": o["steps"], "accept": o["accept"]})
    good = next((x for x in recs if len(x["steps"]) >= 3 and x["accept"] == "returns"), None)
    a = copy.deepcopy(good); a["steps"] = a["steps"][:-2] + [a["steps"][-1], a["steps"][-2]]
    b = copy.deepcopy(good); b["accept"] = "panic"
    sp = os.path.join(wd, "selftest.ndjson")
    C.write_ndjson(sp, [a, b])
    _, f2, _ = C.validate_trace("Trace_Visitor", "Trace_Visitor.cfg", sp, "vis_selftest")
    if not ((1, "StepsConform") in set(f2) and (2, "AcceptConforms") in set(f2)):
        raise C.ToolError(f"visitor binding self-test failed: {f2}")
    return {"model_states": ra.distinct + rc.distinct, "graphs_replayed": len(obs), "acyclic": len(ra.json_payloads("REPLAY")),
            "cyclic_tables": len(rc.json_payloads("REPLAY")), "real_next_calls_validated": sum(len(o["steps"]) for o in obs),
            "accept_panics_on_cyclic_tables": sum(1 for o in obs if o["accept"] != "returns"),
            "model_properties": ["Terminates", "OnceEach", "DagNeverHalts", "DagAllVisited", "DagTopological", "DagRootLast", "DagAcceptReturns", "CycleStops"],
            "binding_selftest": {"swapped_steps_flagged": True, "forged_accept_flagged": True}, "checker_cmd": tr.cmd}


def run(tier, t0):
    r = C.tlc("MC_Compile", "MC_Compile.cfg", "tot_cases", workers=4, timeout=1200)
    C.require_model_ok(r, "Compile.tla (case enumeration)")
    payloads = r.json_payloads("REPLAY")
    # sanity of the stage machine itself on a tiny case space
    r2 = C.tlc("Compile", "Compile_small.cfg", "tot_model", workers=4, timeout=600)
    C.require_model_ok(r2, "Compile.tla (stage machine)")
    rng = random.Random(C.seed())
    if tier == "quick":
        base = [p for p in payloads if p["kind"] == "unsupported" or (p["size"] == "exact" and p["params"] == "default")]
        rest = [p for p in payloads if not (p["kind"] == "unsupported" or (p["size"] == "exact" and p["params"] == "default"))]
        payloads = base + rng.sample(rest, 2500)
    cases = [{"id": i, "sql": T.sql_of(p), "tables": T.tables_of(p), "params": T.PARAMS[p.get("params", "default")]} for i, p in enumerate(payloads)]
    events, restarts = T.run_isolated(cases)
    wd = C.workdir("tot")
    by_id = {c["id"]: p for c, p in zip(cases, payloads)}
    for e in events:
        e["unsupported"] = by_id.get(e["case"], {}).get("kind") == "unsupported"
    tp = os.path.join(wd, "trace.ndjson")
    C.write_ndjson(tp, events)
    tr = C.tlc("Trace_Compile", "Trace_Compile.cfg", "tot_judge", workers=1, timeout=3000, env={"TRACE": tp}, deque=True)
    if not tr.tagged("ACCEPTED"):
        raise C.ToolError("stage trace not consumed: " + tr.out[-1500:])
    rep = C.Reporter(PID)
    minimal = {}

    def necessary_dims(p, judge):
        """Which of the schema / size / parameter classes of a process-level failure are needed for it?"""
        if p["kind"] != "supported":
            return p["construct"]
        coarse = (judge, p["expr"], p["form"])
        if coarse in minimal:
            return minimal[coarse]
        defaults = {"a": "small", "b": "opt_int", "size": "exact", "params": "default"}
        needed = []
        for dim, dv in defaults.items():
            if p[dim] == dv:
                continue
            q = dict(p, **{dim: dv})
            ev, _ = T.run_isolated([{"id": 0, "sql": T.sql_of(q), "tables": T.tables_of(q), "params": T.PARAMS[q["params"]]}])
            if not any(x["outcome"] in ("abort", "timeout") for x in ev):
                needed.append(f"{dim}={p[dim]}")
        minimal[coarse] = f"{p['expr']}/{p['form']}/" + ",".join(needed)
        return minimal[coarse]

    for body in tr.tagged("JUDGE"):
        i, judge = json.loads("[" + body + "]")
        e = events[i - 1]
        p = by_id[e["case"]]
        c = cases[e["case"]]
        if judge == "NoPanic":
            key = f"NoPanic/{e['stage']}/{T.norm_msg(e['msg'])}"
        elif judge == "StageOrder":
            key = f"StageOrder/{e['stage']}"
        else:
            key = f"{judge}/{e['stage']}/{necessary_dims(p, judge)}"
        rep.fail(key, f"{judge}: stage {e['stage']} ended with {e['outcome']}: {e['msg'][:160]}",
                 {"engine": "tot-run", "case": {"sql": c["sql"], "tables": c["tables"], "params": c["params"], "spec_case": p}})
    # panics met by the relational engine (spec/QueryShapes.tla)
    rel = relengine.run(tier)
    for f in rel["failures"]:
        if f["prop"] == PID:
            rep.fail("QueryShapes/" + f["key"], "judge NoPanic failed in the relational engine", {"engine": "sql-run", "case": f["sample"]})
    accepted_unsupported = sorted({by_id[events[json.loads("[" + b + "]")[0] - 1]["case"]]["construct"] for b in tr.tagged("NOTE")})
    # binding self-test: a panic event injected in a clean case is flagged
    st_events = [{"case": 0, "stage": "begin", "outcome": "ok", "msg": "", "unsupported": False},
                 {"case": 0, "stage": "parse", "outcome": "ok", "msg": "", "unsupported": False},
                 {"case": 0, "stage": "build", "outcome": "panic", "msg": "x", "unsupported": False},
                 {"case": 0, "stage": "render", "outcome": "ok", "msg": "", "unsupported": False},
                 {"case": 0, "stage": "end", "outcome": "ok", "msg": "", "unsupported": False}]
    sp = os.path.join(wd, "selftest.ndjson")
    C.write_ndjson(sp, st_events)
    ts = C.tlc("Trace_Compile", "Trace_Compile.cfg", "tot_selftest", workers=1, timeout=300, env={"TRACE": sp}, deque=True)
    flagged = {json.loads("[" + b + "]")[1] for b in ts.tagged("JUDGE")}
    if flagged != {"NoPanic", "StageOrder"}:
        raise C.ToolError(f"binding self-test failed: {flagged}")
    visitor = visitor_part(rep)
    code, viol, known = rep.finish()
    outcomes = {}
    for e in events:
        if e["stage"] not in ("begin", "end"):
            k = f"{e['stage']}:{e['outcome']}" if not e["stage"].startswith("after:") else f"(process):{e['outcome']}"
            outcomes[k] = outcomes.get(k, 0) + 1
    coverage = {
        "states": r.distinct + r2.distinct, "transitions": r.generated + r2.generated, "traces_validated_against_impl": len(cases),
        "samples": [{"sql": c["sql"], "a": p.get("a"), "b": p.get("b"), "size": p.get("size"), "params": p.get("params")} for c, p in list(zip(cases, payloads))[:: max(1, len(cases) // 6)]][:6],
        "evaluations": len(cases) + rel["cases"], "distinct_nontrivial": len({c["sql"] + json.dumps(c["tables"][0]["cols"][:2]) for c in cases}),
        "rule": "cases of spec/Compile.tla enumerated by TLC: 4 query forms x 40 expression templates x 7 x 6 column type classes (extreme bounds, zero-width, zero-containing, 130-interval unions, optional) x exact/unbounded table size x 6 privacy parameter settings, and 20 constructs outside the supported fragment; plus every query of the relational engine; quick tier: all cases with exact size and default parameters plus a seeded sample of 2500 others; distinct (SQL text, column types)",
        "exhaustive": tier == "thorough", "stage_outcomes": outcomes, "child_restarts": restarts,
        "unsupported_constructs_accepted_without_error": accepted_unsupported,
        "relational_engine_cases": rel["cases"], "binding_selftest": {"injected_panic_and_out_of_order_stage_flagged": True},
        "visitor": visitor,
        "failures_by_key": {k: v["count"] for k, v in rep.by_key.items()}, "known_findings_reproduced": known, "checker_cmd": tr.cmd,
    }
    C.write_evidence(PID, tier, "model_checking", coverage,
                     ["the supported fragment is the grammar of spec/QueryShapes.tla and spec/Compile.tla (constructs exercised by the repository's own tests); there is no normative list in the documentation",
                      "each case runs in a child process with an address-space limit of 6 GB and a 20 s watchdog",
                      "panics are caught with catch_unwind; overflow checks and debug assertions are enabled in the harness build"],
                     time.time() - t0, viol)
    return code


def replay(path):
    print("re-run `bin/check C18`; the failing case is in the replay file")
    return 2
