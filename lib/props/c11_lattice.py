"""C11, part 2: the lattice laws of DataType (is_subset_of / super_union / super_intersection / contains / type of a value)
on every ordered pair of types of spec/DataTypes.tla, under three order embeddings, judged by TLC (spec/Trace_Lattice.tla)."""
import json
import os

import common as C

COMPOSITE = {"struct", "union", "list", "opt"}


def short(t):
    k = t["k"]
    if "ivs" in t:
        return f"{k}{t['ivs']}"
    if k == "opt":
        return f"opt({short(t['t'])})"
    if k in ("struct", "union"):
        return k + "{" + ",".join(f"{f['n']}:{short(f['t'])}" for f in t["fields"]) + "}"
    if k == "list":
        return f"list({short(t['t'])},{t['lo']},{t['hi']})"
    return k


def type_leaves(t):
    k = t["k"]
    if k in ("opt", "list"):
        return type_leaves(t["t"])
    if k in ("struct", "union"):
        out = set()
        for f in t["fields"]:
            out |= type_leaves(f["t"])
        return out
    return {k}


def value_leaves(v):
    k = v["k"]
    if k == "some":
        return value_leaves(v["v"])
    if k in ("none", "unit"):
        return set()
    if k == "structv":
        out = set()
        for f in v["fields"]:
            out |= value_leaves(f["v"])
        return out
    if k == "listv":
        out = set()
        for x in v["vs"]:
            out |= value_leaves(x)
        return out
    return {k}


def lattice_part(tier, rep, cov):
    n, rich = (3, "FALSE") if tier == "quick" else (3, "TRUE")
    consts = {"N": n, "Rich": rich}
    r = C.tlc("MC_Lattice", "MC_Lattice.cfg", "c11_lat", workers=4, constants=consts, timeout=3000, heap="16g")
    C.require_model_ok(r, "DataTypes.tla (pairs of types)")
    pairs = r.json_payloads("REPLAY")
    values = r.json_payloads("VALUES")[0]
    wd = C.workdir("c11_lat")
    # (sharded: every shard also reports the "own type" records of the values, which are judged once per shard)
    obs = C.qv_sharded(["dt-lattice"], {"values": values, "n": n}, pairs, wd, shards=12, timeout=6000, case_field="__none__")
    trace = [{"op": "values", "values": values}] + obs
    tp = os.path.join(wd, "trace.ndjson")
    C.write_ndjson(tp, trace)
    tr, fails, _ = C.validate_trace("Trace_Lattice", "Trace_Lattice.cfg", tp, "c11_lat_judge", constants=consts, timeout=6000, heap="16g")
    nvals = len(values)
    for i, judge in fails:
        o = trace[i - 1]
        if o["op"] == "own":
            key = "lattice/OwnType"
        elif judge.endswith("Cross"):
            key = f"lattice/{judge}"
        elif o["a"]["k"] in COMPOSITE or o["b"]["k"] in COMPOSITE:
            # native: some witness value is made of leaves of the kinds the two types are made of (the failure does not go
            # through the cross-variant arm of `contains`); cross: every witness has a leaf of another kind
            wit = [values[k] for k in range(nvals) if o.get("ca") and ((o["ca"][k] or o["cb0"][k]) and not o["cu"][k] or (o["sub"] and o["ca"][k] and not o["cb"][k])
                                                                        or (o["ca"][k] and o["cb"][k] and not o.get("ci", o["cu"])[k]))]
            tl = type_leaves(o["a"]) | type_leaves(o["b"])
            native = any(value_leaves(v) <= tl for v in wit) if wit else True
            key = f"lattice/{judge}/composite/{o['a']['k']}/{o['b']['k']}/{'native' if native else 'cross'}"
        else:
            key = f"lattice/{judge}/{o['a']['k']}/{o['b']['k']}"
        sample = {"engine": "dt-lattice", "a": short(o["a"]) if "a" in o else None, "b": short(o["b"]) if "b" in o else None,
                  "union": short(o["u_abs"]) if o.get("u_abs") else None, "intersection": short(o["i_abs"]) if o.get("i_abs") else None,
                  "is_subset_of": o.get("sub"), "embeddings": o.get("embs"),
                  "witnesses": [values[k] for k in range(nvals) if o.get("ca") and ((o["ca"][k] or o["cb0"][k]) and not o["cu"][k] or (o["sub"] and o["ca"][k] and not o["cb"][k]))][:4] if o.get("ca") else o}
        rep.fail(key, f"judge {judge} failed on the real DataType lattice", sample)
    # self-test: flip one union membership
    import copy
    good = [o for o in obs if o["op"] == "pair" and not o["panic"] and o["u_ok"] and 1 in o["ca"]]
    st = copy.deepcopy(good[0])
    k = st["ca"].index(1)
    st["cu"][k] = 0
    sp = os.path.join(wd, "selftest.ndjson")
    C.write_ndjson(sp, [{"op": "values", "values": values}, st])
    _, f2, _ = C.validate_trace("Trace_Lattice", "Trace_Lattice.cfg", sp, "c11_lat_selftest", constants=consts)
    if not any(j.startswith("UnionSound") for _, j in f2):
        raise C.ToolError("binding self-test failed (lattice)")
    pair_obs = [o for o in obs if o["op"] == "pair"]
    nontrivial = sum(1 for o in pair_obs if o["a"] != o["b"])
    cov["lattice"] = {"types": int(len(pairs) ** 0.5), "pairs": len(pairs), "values": nvals, "embeddings": ["default", "extreme", "p53"],
                      "observations": len(pair_obs), "real_executions": sum(o.get("count", 0) for o in pair_obs),
                      "judges": ["SubsetSound", "UnionSound", "IntersectionSound", "OwnType", "ContainsIsMembership", "SubsetStructural", "UnionStructural", "IntersectionStructural",
                                 "(…Cross: same laws on witnesses of another variant)"],
                      "binding_selftest": {"flipped_union_membership_flagged": True}}
    return {"states": r.distinct, "transitions": r.generated, "traces": 1, "evaluations": sum(o.get("count", 0) for o in pair_obs) * nvals,
            "distinct_nontrivial": nontrivial, "samples": [{"a": short(pair_obs[len(pair_obs) // 3]["a"]), "b": short(pair_obs[len(pair_obs) // 3]["b"]),
                                                            "union": short(pair_obs[len(pair_obs) // 3]["u_abs"])}],
            "drift": 0, "checker_cmd": tr.cmd}
