"""C02 — no un-noised path from protected tables to a DP / published result (lib/rrengine.py)."""
import rrengine

PID = "C02"


def run(tier, t0):
    return rrengine.report(PID, rrengine.C02_JUDGES, tier, t0, [
        "the derivation applied by the entry point is identified by comparing its result (rendered SQL modulo generated names, privacy event) with the rewriting of each candidate",
        "trees are built from two tables and a value list with fixed schemas; node kinds as the rule table distinguishes them",
    ])


def replay(path):
    print("re-run `bin/check %s`; the case is in the replay file" % PID)
    return 2
