"""C16 — compilation is deterministic and rendering is a fixpoint.
 - spec/Namer.tla: the shared name counter and compilation jobs run by several threads; TLC checks MutualExclusion,
   PerPrefixSequential, DrawFreeDeterministic and Termination on an instance built from the counter draws the real compiler
   was observed to make (hook), and predicts which jobs cannot be deterministic (AllDeterministic);
 - the real compiler compiles a pool of queries at several positions of a history, from several threads (draws ordered by an
   imposed schedule) and in two processes; spec/Trace_Namer.tla validates the counter events and judges that the output of a job
   is a function of the query;
 - re-parsing the rendered SQL gives the same schema and results (judges ReparseSchema / ReparseRows of the relational engine)."""
import json
import os
import random
import time

import common as C
import relengine
import sqlgen

PID = "C16"
SPECIAL = [
    "SELECT a, SUM(b) AS s FROM t GROUP BY a",
    "WITH w AS (SELECT a FROM t WHERE b > 0) SELECT * FROM w",
    "SELECT x FROM (SELECT a + 1 AS x FROM t) WHERE x > 1",
    "SELECT t.a, u.c FROM t JOIN u ON t.a = u.a",
    "SELECT a, COUNT(*) AS n FROM t GROUP BY a HAVING COUNT(*) > 1",
    "SELECT a + b, a * 2 FROM t",
    "SELECT random() AS r, a FROM t",
    "SELECT a FROM t UNION SELECT a FROM u",
    # joins whose right operand renders to several CTEs of its own (their order in the WITH list must not depend on a hash)
    "SELECT t.a AS a, d.s AS s FROM t JOIN (SELECT a, SUM(b) AS s FROM t GROUP BY a) AS d ON t.a = d.a",
    "WITH m AS (SELECT AVG(b) AS avg_b FROM t) SELECT t.a AS a, m.avg_b AS avg_b FROM t CROSS JOIN m",
    "SELECT x.a AS a, y.n AS n FROM (SELECT a + 1 AS a FROM u WHERE c > 0) AS x JOIN (SELECT a, COUNT(*) AS n FROM t GROUP BY a HAVING COUNT(*) > 0) AS y ON x.a = y.a",
    "SELECT p.a AS a, q.k AS k FROM u AS p JOIN (SELECT d.a AS a, COUNT(d.b) AS k FROM (SELECT a, b FROM t WHERE b >= 0) AS d GROUP BY d.a) AS q ON p.a = q.a",
]


def run(tier, t0):
    rel = relengine.run(tier)
    rng = random.Random(C.seed())
    # pool: the special queries and a sample of the SQL texts of the relational engine
    wd = C.workdir("det")
    rel_sql = sorted({l["sql"] for l in rel["case_list"]})
    pool = SPECIAL + rng.sample(rel_sql, min(len(rel_sql), 150 if tier == "quick" else 1500))
    db0 = {"t": {"rows": []}, "u": {"rows": []}}
    case = {"threads": 3, "tables": sqlgen.tables(db0, variant=0), "queries": pool, "schedule": [2, 1, 3, 3, 1, 2, 1, 2, 3]}
    cp = os.path.join(wd, "case.json")
    with open(cp, "w") as f:
        f.write(json.dumps(case) + "\n")
    lines = []
    for proc in (0, 1):
        out = C.qv(["det-run"], stdin_path=cp, timeout=3000)
        lines.append([json.loads(l) for l in out.splitlines() if l.strip()])
    # ---- the model, instantiated with the observed draws
    marks = [m for m in lines[0] if "draws" in m]
    draws = {}
    for m in marks:
        draws.setdefault(m["q"], m["draws"])
    drawing = [q for q, d in draws.items() if d]
    free = [q for q, d in draws.items() if not d]
    jobs = (free[:2] + drawing[:1])[:3]
    prefixes = sorted({p for q in jobs for p in draws[q]}) or ["none"]
    steps = {q: [{"k": "content"}] + [{"k": "count", "p": p} for p in draws[q]] for q in jobs}

    def tla_steps(s):
        return "<<" + ", ".join('[k |-> "content"]' if x["k"] == "content" else '[k |-> "count", p |-> "%s"]' % x["p"] for x in s) + ">>"
    names = ["J%d" % q for q in jobs]
    mc = f"""---- MODULE MC_Namer_gen ----
EXTENDS Namer
MCThreads == {{1, 2}}
MCProgram == [t \\in MCThreads |-> IF t = 1 THEN <<{", ".join('"%s"' % n for n in names)}>> ELSE <<{", ".join('"%s"' % n for n in reversed(names))}>>]
MCJobSteps == [j \\in {{{", ".join('"%s"' % n for n in names)}}} |-> CASE {" [] ".join('j = "%s" -> %s' % (n, tla_steps(steps[q])) for n, q in zip(names, jobs))}]
MCPrefixes == {{{", ".join('"%s"' % p for p in prefixes)}}}
====
"""
    with open(os.path.join(C.SPEC, "MC_Namer_gen.tla"), "w") as f:
        f.write(mc)
    cfg = "CONSTANTS\n  Threads <- MCThreads\n  Program <- MCProgram\n  JobSteps <- MCJobSteps\n  Prefixes <- MCPrefixes\nSPECIFICATION Spec\nINVARIANTS MutualExclusion PerPrefixSequential DrawFreeDeterministic\nPROPERTY Termination\nCHECK_DEADLOCK FALSE\n"
    with open(os.path.join(C.SPEC, "MC_Namer_gen.cfg"), "w") as f:
        f.write(cfg)
    r1 = C.tlc("MC_Namer_gen", "MC_Namer_gen.cfg", "namer_mc", workers=4, timeout=900, extra=["-coverage", "1"])
    C.require_model_ok(r1, "Namer.tla")
    with open(os.path.join(C.SPEC, "MC_Namer_all.cfg"), "w") as f:
        f.write(cfg.replace("DrawFreeDeterministic", "AllDeterministic").replace("PROPERTY Termination\nCHECK_DEADLOCK FALSE\n", ""))
    r2 = C.tlc("MC_Namer_gen", "MC_Namer_all.cfg", "namer_all", workers=4, timeout=900)
    model_predicts_nondeterminism = "Invariant AllDeterministic is violated" in r2.out
    if bool(drawing) != model_predicts_nondeterminism and drawing:
        raise C.ToolError("Namer.tla does not predict a schedule with different outputs although a job draws from the counter")
    # ---- the trace of the real runs
    trace = []
    for proc, ls in enumerate(lines):
        trace.append({"ev": "reset"})
        evs = sorted([e for e in ls if e.get("ev") == "count" and e.get("phase") == "seq"], key=lambda e: e["order"]) + \
            sorted([e for e in ls if e.get("ev") == "count" and e.get("phase") == "par"], key=lambda e: e["seq"])
        for e in evs:
            trace.append({"ev": "count", "prefix": e["prefix"], "pre": e["pre"], "t": e["t"]})
        for o in ls:
            if "outcome" in o:
                trace.append({"ev": "job", "q": o["q"], "sig": [o["outcome"], o["debug"], o["display"], o["rendered"], o["names"], o.get("nsql", ""), o.get("types", "")],
                              "render_twice_same": o["render_twice_same"], "phase": o["phase"], "thread": o["thread"], "pos": o["pos"], "proc": proc})
    tp = os.path.join(wd, "trace.ndjson")
    C.write_ndjson(tp, trace)
    tr, fails, _ = C.validate_trace("Trace_Namer", "Trace_Namer.cfg", tp, "namer_trace", timeout=1800)
    rep = C.Reporter(PID)
    for i, judge in fails:
        e = trace[i - 1]
        if e["ev"] == "job":
            sql = pool[e["q"]]
            first = next(x for x in trace if x["ev"] == "job" and x["q"] == e["q"])
            differing = [n for n, a, b in zip(("outcome", "debug", "display", "rendered", "names", "nsql", "types"), first["sig"], e["sig"]) if a != b]
            if "random()" in sql.lower():
                feat = "uses_random()"
            elif "types" in differing and "nsql" not in differing and "outcome" not in differing:
                # the same SQL up to generated names (which hash the content, types included): only column types differ
                feat = "only-column-types-differ"
            else:
                feat = sql[:120]
            rep.fail(f"{judge}/{feat}", f"judge {judge}: the output of compiling the same query differs between two runs",
                     {"engine": "det-run", "case": {"sql": sql, "differing": differing, "where": {k: e[k] for k in ("phase", "thread", "pos", "proc")}, "tables": "t(a,b,s), u(a,c) of spec/QueryShapes.tla"}})
        else:
            rep.fail(f"{judge}/{e.get('prefix')}", "a counter draw did not follow the previous one", {"engine": "det-run", "case": e})
    for f in rel["failures"]:
        if f["prop"] == PID:
            rep.fail(f["key"], f"judge {f['judge']} failed: re-parsing the rendered SQL does not give the same schema / results", {"engine": "sql-run", "case": f["sample"]})
    # binding self-test: alter one recorded output / one recorded pre-value
    import copy
    t2 = copy.deepcopy(trace)
    jidx = [k for k, e in enumerate(t2) if e["ev"] == "job"]
    t2[jidx[-1]]["sig"][3] = "corrupted"
    sp = os.path.join(wd, "selftest.ndjson")
    C.write_ndjson(sp, t2)
    _, f2, _ = C.validate_trace("Trace_Namer", "Trace_Namer.cfg", sp, "namer_selftest")
    if not any(i == jidx[-1] + 1 and j == "Deterministic" for i, j in f2):
        raise C.ToolError("binding self-test failed: a corrupted job output was accepted")
    code, viol, known = rep.finish()
    jobs_rec = [e for e in trace if e["ev"] == "job"]
    coverage = {
        "states": r1.distinct + r2.distinct, "transitions": r1.generated + r2.generated,
        "traces_validated_against_impl": 2, "samples": [pool[0], pool[len(pool) // 2], pool[-1]],
        "evaluations": len(jobs_rec), "distinct_nontrivial": len({e["q"] for e in jobs_rec if e["sig"][0] == "ok"}),
        "rule": "pool = 8 hand-picked queries (CTE, join, HAVING, random(), set operation, unnamed derived table) + a seeded sample of the queries of spec/QueryShapes.tla; every query is compiled 3 times in sequence (twice in a row, once in reverse order of the pool), by 3 concurrent threads in rotated orders (counter draws ordered by an imposed schedule) and again in a second process; distinct non-trivial = distinct queries that compile",
        "exhaustive": False,
        "namer_model": {"jobs": {n: steps[q] for n, q in zip(names, jobs)}, "states": r1.distinct, "invariants": ["MutualExclusion", "PerPrefixSequential", "DrawFreeDeterministic", "Termination (liveness, weak fairness)"],
                        "action_coverage": r1.action_coverage(), "predicts_nondeterminism_for_drawing_jobs": model_predicts_nondeterminism,
                        "queries_drawing_from_counter": [pool[q] for q in drawing][:5]},
        "counter_events_validated": sum(1 for e in trace if e["ev"] == "count"), "processes": 2, "threads": 3,
        "reparse_cases": rel["reparsed"], "binding_selftest": {"corrupted_output_flagged": True},
        "failures_by_key": {k: v["count"] for k, v in rep.by_key.items()}, "known_findings_reproduced": known, "checker_cmd": tr.cmd,
    }
    C.write_evidence(PID, tier, "model_checking", coverage,
                     ["outputs are compared through hashes of the Debug / Display strings of the relation, the rendered SQL and the list of node and field names",
                      "the schedule imposed on counter draws is a fixed permutation; draw-free jobs have no scheduling points (their determinism under all interleavings is what Namer.tla proves)",
                      "hash-seed dependent behaviour is probed by a second process, not by controlling the seed"], time.time() - t0, viol)
    return code


def replay(path):
    print("re-run `bin/check C16`; the failing case is in the replay file")
    return 2
