"""C09 — see lib/dpengine.py (differential-privacy engine) and spec/DPPipeline.tla, spec/Trace_DP.tla."""
import dpengine

PID = "C09"


def run(tier, t0):
    return dpengine.report(PID, tier, t0, [
        "SQLite 3.40 with harness UDFs executes the rewritten relation; random sources are controlled per id (vrandom)",
        "sums of squares, Gaussian calibration and the normal quantile are computed in lib/dpengine.py and handed to TLC as ranked facts",
        "clip bounds, sigmas, epsilon/delta shares are read from the compiler's own events (hooks) and cross-checked against the literals in the rewritten relation",
        "one protected table orders(user_id, k, v), privacy unit = user_id; multi-table privacy-unit paths are exercised by C05",
    ])


def replay(path):
    print("re-run `bin/check %s`; the failing case is in the replay file" % PID)
    return 2
