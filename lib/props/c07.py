"""C07 — relation schemas and size bounds contain what real execution produces (see lib/relengine.py)."""
import relengine

PID = "C07"


def run(tier, t0):
    return relengine.report(PID, tier, t0, [
        "SQLite 3.40 as the executor of original and rendered SQL (UDFs of harness/src/sqlx.rs)",
        "rank encoding of values and bounds (lib/relenc.py); TLC decides containment",
        "generated fragment: spec/QueryShapes.tla over two tables, values 0..2, NULL, three strings",
    ])


def replay(path):
    import json, os, common as C, relenc
    rec = json.load(open(path))
    case = rec["sample"]["case"]
    wd = C.workdir("rel_replay")
    cp = os.path.join(wd, "case.ndjson")
    C.write_ndjson(cp, [{"id": 0, "sql": case["sql"], "tables": case["tables"]}])
    out = C.qv(["sql-run"], stdin_path=cp)
    obs = json.loads(out.strip().splitlines()[0])
    r = relenc.encode(obs, {"okeys": [], "total": False})
    tp = os.path.join(wd, "trace.ndjson")
    C.write_ndjson(tp, [r])
    _, fails, _ = relengine.validate(tp, "rel_replay_t")
    print(json.dumps(obs)[:3000])
    mine = [f for f in fails if relengine.JUDGE_PROP[f[1]] == rec["property"]]
    if mine:
        print(f"VIOLATION property={rec['property']} replay={path}")
        return 1
    return 0
