"""C14 — columns declared unique really are unique in every execution (see lib/relengine.py)."""
import relengine

PID = "C14"


def fname(e):
    if "f" in e:
        inner = [fname(a) for a in e["args"] if isinstance(a, dict) and "f" in a]
        return e["f"] + ("(" + ",".join(inner) + ")" if inner else "")
    return "col"


def projection_part(rep, tier):
    """Projections of a UNIQUE column (spec/ExprCases.tla UniqueCases, spec/Trace_Unique.tla): the relational engine only has
    the values 0..2, on which e.g. abs is one-to-one; here every unary function and chains of two are evaluated on the
    universe points of five order embeddings (negative values included) and the constraint the real Map keeps is judged."""
    import copy
    import os
    import common as C
    import relenc
    r = C.tlc("MC_Functions", "MC_Functions.cfg", "c14_cases", workers=4, timeout=1200, constants={"Which": '"unique"', "Thin": 1})
    C.require_model_ok(r, "ExprCases.tla (projections of a unique column)")
    cases = r.json_payloads("REPLAY")
    wd = C.workdir("c14u")
    obs = C.qv_sharded(["dt-unique"], {"n": 5}, cases, wd, shards=6, timeout=3000)
    recs = []
    for o in obs:
        rk = relenc.Ranker()
        cells = []
        for y in o["ys"]:
            while isinstance(y, dict) and y.get("k") == "some":
                y = y["v"]
            k = y.get("k") if isinstance(y, dict) else None
            v = y.get("v") if isinstance(y, dict) else None
            if k in ("int", "float", "bool") and v is not None:
                x = v if not isinstance(v, dict) else v.get("r", v)
                cells.append(("n", relenc.float_of(x) if not isinstance(x, bool) else int(x)))
            elif k in ("text", "date", "datetime", "time", "bytes") and v is not None:
                cells.append(("s", k + ":" + str(v)))
            else:
                cells.append(None)
        for c in cells:
            if c and c[0] == "n":
                rk.add_num(c[1])
            elif c:
                rk.add_str(c[1])
        rk.freeze()
        ys = [[0, 0, 0] if c is None else ([1, rk.num(c[1]), 0] if c[0] == "n" else [3, rk.str(c[1]), 0]) for c in cells]
        recs.append({"case": o["case"], "emb": o["emb"], "unique_kept": bool(o["unique_kept"]), "ys": ys or [[0, 0, 0]]})
    tp = os.path.join(wd, "trace.ndjson")
    C.write_ndjson(tp, recs)
    tr, fails, _ = C.validate_trace("Trace_Unique", "Trace_Unique.cfg", tp, "c14u_judge", timeout=3000)
    for i, judge in fails:
        o = obs[i - 1]
        c = cases[o["case"]]
        cls = "extreme" if o["emb"] in ("extreme", "p53") else "small"
        rep.fail(f"{judge}/{fname(c['expr'])}/{c['cols'][0]['k']}/{cls}", f"judge {judge} failed",
                 {"engine": "dt-unique", "case": {"expr": c["expr"], "column": c["cols"][0], "embedding": o["emb"], "values": o["ys"][:8]}})
    kept = [x for x in recs if x["unique_kept"] and len(x["ys"]) >= 2]
    if not kept:
        raise C.ToolError("no projection keeps the UNIQUE constraint: the binding of dt-unique is broken")
    a = copy.deepcopy(kept[0])
    a["ys"][1] = a["ys"][0] = [1, 0, 0]
    sp = os.path.join(wd, "selftest.ndjson")
    C.write_ndjson(sp, [a])
    _, f2, _ = C.validate_trace("Trace_Unique", "Trace_Unique.cfg", sp, "c14u_selftest")
    if (1, "UniqueKeptOnlyIfInjective") not in set(f2):
        raise C.ToolError("binding self-test of Trace_Unique failed")
    return {"cases": len(cases), "records": len(recs), "projections_keeping_unique": len({(x["case"]) for x in recs if x["unique_kept"]}),
            "functions_keeping_unique": sorted({fname(cases[x["case"]]["expr"]) for x in recs if x["unique_kept"]})[:40],
            "embeddings": 5, "binding_selftest": {"duplicate_under_unique_flagged": True}, "checker_cmd": tr.cmd}


def join_part(rep, tier):
    """Uniqueness through joins (spec/JoinCases.tla): l(x, n) JOIN r(y, m) ON x = y in both operand orders, four join kinds,
    x / y declared UNIQUE or not, every pair of key columns of up to three values honouring the constraints; compiled by
    the real code, executed on SQLite, judged by TLC with the relational trace specification (UniqueHolds at every node)."""
    import os
    import common as C
    import relenc
    r = C.tlc("MC_JoinCases", "MC_JoinCases.cfg", "c14_join_cases", workers=4, timeout=1200, constants={"Thin": 4 if tier == "quick" else 1},
              extra=["-seed", str(C.seed() + 14)])
    C.require_model_ok(r, "JoinCases.tla")
    payloads = r.json_payloads("REPLAY")
    INT = {"k": "int", "ivs": [[0, 2]]}
    ROW = {"k": "int", "ivs": [[1, 3]]}
    cases = []
    for i, p in enumerate(payloads):
        tables = [{"name": "l", "cols": [{"n": "x", "t": INT, "c": "unique" if p["lu"] else None}, {"n": "n", "t": ROW, "c": "unique"}], "rows": [[v, k + 1] for k, v in enumerate(p["l"])], "size": len(p["l"])},
                  {"name": "r", "cols": [{"n": "y", "t": INT, "c": "unique" if p["ru"] else None}, {"n": "m", "t": ROW, "c": "unique"}], "rows": [[v, k + 1] for k, v in enumerate(p["r"])], "size": len(p["r"])}]
        on = "r.y = l.x" if p["rev"] else "l.x = r.y"
        kind = {"inner": "INNER", "left": "LEFT", "right": "RIGHT", "full": "FULL"}[p["kind"]]
        sql = f"SELECT l.x AS lx, l.n AS ln, r.y AS ry, r.m AS rm FROM l {kind} JOIN r ON ({on})"
        cases.append({"id": i, "sql": sql, "tables": tables, "okeys": [], "total": False})
    wd = C.workdir("c14j")
    obs = C.qv_sharded(["sql-run"], None, [{"id": c["id"], "sql": c["sql"], "tables": c["tables"]} for c in cases], wd, shards=8, timeout=3000, case_field="__none__")
    by_id = {o["id"]: o for o in obs}
    recs = [relenc.encode(by_id[c["id"]], c) for c in cases]
    tp = os.path.join(wd, "trace.ndjson")
    C.write_ndjson(tp, recs)
    tr, fails, _ = relengine.validate(tp, "c14_join_judge")
    kept = 0
    for rec in recs:
        for n in rec["nodes"]:
            kept += sum(1 for col in n["cols"] if col["uniq"])
    for f in fails:
        i, judge, node = f[0], f[1], (f[2] if len(f) > 2 else 0)
        if judge != "UniqueHolds":
            continue        # the bounds judges on these cases belong to C07 (the size of joins under a unique key is a recorded finding there)
        p, c = payloads[i - 1], cases[i - 1]
        rep.fail(f"join/UniqueHolds/{p['kind']}/{'l' if p['lu'] else ''}{'r' if p['ru'] else ''}unique/{'reversed' if p['rev'] else 'straight'}",
                 "judge UniqueHolds failed on a join", {"engine": "sql-run", "case": {"sql": c["sql"], "tables": c["tables"], "model": {k: p[k] for k in ("left_stays", "right_stays")}}})
    return {"cases": len(cases), "compiled": sum(1 for x in recs if x["outcome"] == "ok"), "unique_flags_judged": kept,
            "model_theorems": ["RuleSound", "RuleTight"], "checker_cmd": tr.cmd}


def both_parts(rep, tier):
    return {"projections": projection_part(rep, tier), "joins": join_part(rep, tier)}


def run(tier, t0):
    return relengine.report(PID, tier, t0, [
        "SQLite 3.40 as the executor of original and rendered SQL (UDFs of harness/src/sqlx.rs)",
        "rank encoding of values and bounds (lib/relenc.py); TLC decides containment",
        "generated fragment: spec/QueryShapes.tla over two tables, values 0..2, NULL, three strings",
        "projections: the value of an expression is the library's own Expr::value on distinct universe points of the column",
    ], extra=both_parts)


def replay(path):
    import json, os, common as C, relenc
    rec = json.load(open(path))
    case = rec["sample"]["case"]
    wd = C.workdir("rel_replay")
    cp = os.path.join(wd, "case.ndjson")
    C.write_ndjson(cp, [{"id": 0, "sql": case["sql"], "tables": case["tables"]}])
    out = C.qv(["sql-run"], stdin_path=cp)
    obs = json.loads(out.strip().splitlines()[0])
    r = relenc.encode(obs, {"okeys": [], "total": False})
    tp = os.path.join(wd, "trace.ndjson")
    C.write_ndjson(tp, [r])
    _, fails, _ = relengine.validate(tp, "rel_replay_t")
    print(json.dumps(obs)[:3000])
    mine = [f for f in fails if relengine.JUDGE_PROP[f[1]] == rec["property"]]
    if mine:
        print(f"VIOLATION property={rec['property']} replay={path}")
        return 1
    return 0
