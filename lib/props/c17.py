"""C17 — dialect translation emits valid target-dialect SQL with the same meaning
(spec/DialectRules.tla, spec/Dialects.tla, spec/Trace_Dialects.tla)."""
import copy
import json
import os
import random
import re
import time

import common as C
import relenc
import relengine
import sqlgen

PID = "C17"
CHARS = {"a": "a", "B": "B", "sp": " ", "dq": "\"", "bt": "`", "sq": "'", "rb": "]", "dot": "."}
WORDS = ["select", "order", "group", "user", "table", "from", "Select", "values", "limit", "0a", "a-b", "é"]
SPECIAL = [
    "SELECT a AS \"select\", b AS \"from\" FROM t",
    "SELECT a AS \"x y\", b AS \"q\"\"uote\" FROM t",
    "SELECT a AS \"`tick\", b AS \"br]acket\" FROM t",
    "SELECT t.a, u.c FROM t JOIN u ON t.a = u.a LIMIT 2",
    "SELECT a, count(b) AS n, sum(b) AS s, avg(b) AS m FROM t GROUP BY a",
    "SELECT CAST(a AS TEXT) AS x, CAST(b AS FLOAT) AS y FROM t",
    "SELECT a FROM t ORDER BY a DESC LIMIT 1 OFFSET 1",
    "SELECT a FROM t UNION SELECT a FROM u",
    "SELECT upper(s) AS x, char_length(s) AS n, s || 'z' AS c FROM t",
    "SELECT CASE WHEN a > 1 THEN 'big' ELSE 'small' END AS size, ln(a + 1) AS l, sqrt(a) AS r FROM t",
]


def abstract(text):
    inv = {v: k for k, v in CHARS.items()}
    out = []
    for ch in text:
        if ch not in inv:
            return None
        out.append(inv[ch])
    return out


def plain(o):
    p = o.get("exec_plain")
    return "na" if not p else ("ok" if p == "ok" else "err")


def ident_class(name, dialect):
    q = "\"" if dialect in ("postgresql", "sqlite", "mssql", "redshift") else "`"
    if q + q in name:
        return "adjacent-quote-chars"
    if q in name:
        return "quote-char-inside"
    if re.fullmatch(r"[A-Za-z_][A-Za-z0-9_]*", name):
        return "word:" + name
    return "special-chars"


def norm_err(m):
    m = re.sub(r"InvalidPath\(.*", "InvalidPath", m or "")
    m = re.sub(r"'[^']*'|\"[^\"]*\"|`[^`]*`", "<q>", m)
    m = re.sub(r"(map|join|reduce|set|values|table|field)_[a-z0-9_]{4,}", "<name>", m)
    m = re.sub(r"Line: \d+, Column:? \d+", "Line: <n>, Column <n>", m)
    m = re.sub(r"\s+", " ", m).strip()
    return m[:70]


def norm_type(t):
    """a type as its variant: option(float{0, 1}) -> option(float)"""
    t = re.sub(r"\{[^{}]*\}|\[[^\[\]]*\]", "", t or "none")
    return re.sub(r"\s+", "", t)


def sql_features(sql):
    """Constructs of the *translated* text that dialects disagree on (for keys)."""
    s = sql or ""
    fs = []
    for name, pat in [("limit", r"\bLIMIT\b"), ("top", r"\bTOP\b"), ("offset", r"\bOFFSET\b"), ("cast", r"\bCAST\("), ("case", r"\bCASE\b"), ("values", r"\bVALUES\b"),
                      ("union", r"\bUNION\b"), ("intersect", r"\bINTERSECT\b"), ("except", r"\bEXCEPT\b"), ("join", r"\bJOIN\b"), ("groupby", r"\bGROUP BY\b"),
                      ("orderby", r"\bORDER BY\b"), ("distinct", r"\bDISTINCT\b"), ("concat", r"\|\||CONCAT\("), ("like", r"\bLIKE\b"), ("in", r"\bIN \(")]:
        if re.search(pat, s):
            fs.append(name)
    return fs


def run(tier, t0):
    # ---- the model: the quoting rules and the scanner, exhaustively; one REPLAY line per identifier
    r = C.tlc("MC_Dialects", "MC_Dialects.cfg", "c17_mc", workers=4, timeout=900, constants={"MaxLen": 3})
    C.require_model_ok(r, "Dialects.tla")
    idents = r.json_payloads("REPLAY")
    wd = C.workdir("c17")
    cases = [{"ident": p["ident"]} for p in idents] + [{"word": w} for w in WORDS]
    obs_i = C.qv_sharded(["dl-ident"], {"chars": CHARS}, cases, wd, shards=8, timeout=3000)
    # ---- whole relations: the queries of the relational engine (plain, and rewritten)
    rel_cases = relengine.run(tier)["case_list"]
    rng = random.Random(C.seed() + 17)
    by_sql = {}
    for c in rel_cases:
        by_sql.setdefault(c["sql"], c)
    pool_sql = sorted(by_sql)
    n_plain, n_rw = (150, 40) if tier == "quick" else (1500, 300)
    db0 = {"t": {"rows": [[0, 1, 100], [1, -9999, 101], [2, 2, 102]]}, "u": {"rows": [[0, 1], [2, -9999]]}}
    tables0 = sqlgen.tables(db0, variant=0)
    rcases = []
    for s in SPECIAL:
        rcases.append({"id": len(rcases), "sql": s, "tables": tables0, "mode": "plain"})
    for s in rng.sample(pool_sql, min(len(pool_sql), n_plain)):
        rcases.append({"id": len(rcases), "sql": s, "tables": by_sql[s]["tables"], "mode": "plain"})
    agg = [s for s in pool_sql if re.search(r"\b(count|sum|avg)\(", s, re.I) and " t" in s]
    for mode in ("pup", "dp"):
        for s in SPECIAL[3:5] + rng.sample(agg, min(len(agg), n_rw)):
            rcases.append({"id": len(rcases), "sql": s, "tables": by_sql[s]["tables"] if s in by_sql else tables0, "mode": mode})
    obs_r = C.qv_sharded(["dl-run"], None, rcases, wd, shards=12, timeout=6000, case_field="__none__")
    # ---- records judged by TLC
    recs, back = [], []
    for o in obs_i:
        if o.get("build") != "ok":
            continue
        chars = "word" not in cases[o["case"]]
        q = abstract(o["quoted"]) if chars else None
        recs.append({"kind": "ident", "dialect": o["dialect"], "chars": bool(chars and q is not None), "ident": o["ident"] if chars else ["a"],
                     "quoted": q if q is not None else ["a"], "lexed": o.get("lexed", []) or [["sp", "sp", "sp", "sp"]],
                     "render": "ok" if o["render"] == "ok" else "panic", "parse": o["parse"][:2] if o["parse"] in ("ok", "na") else "err",
                     "reread": o["reread"][:2] if o["reread"] in ("ok", "na") else "err", "survives": bool(o.get("survives")),
                     "names_same": bool(o.get("names_same", True)), "types_same": bool(o.get("types_same", True)),
                     "exec": "ok" if o.get("exec") == "ok" else ("err" if o.get("exec") else "na"), "exec_names_same": bool(o.get("exec_names_same", True)),
                     "exec_plain": plain(o)})
        back.append(("ident", o))
    built = 0
    for o in obs_r:
        if o.get("build") != "ok":
            continue
        built += 1
        rk = relenc.Ranker()
        rows, ref = o.get("rows") or [], o.get("ref_rows") or []
        for c in relenc.cells_of(rows):
            relenc.register_cell(rk, c)
        for c in relenc.cells_of(ref):
            relenc.register_cell(rk, c)
        rk.freeze()
        ex = o.get("exec")
        recs.append({"kind": "rel", "dialect": o["dialect"], "render": "ok" if o["render"] == "ok" else "panic",
                     "parse": o["parse"] if o["parse"] in ("ok", "na") else "err", "reread": o["reread"] if o["reread"] in ("ok", "na") else "err",
                     "names_same": bool(o.get("names_same", True)), "types_same": bool(o.get("types_same", True)),
                     "exec": "ok" if ex == "ok" else ("err" if ex and ex.startswith("err") else "na"), "exec_names_same": bool(o.get("exec_names_same", True)),
                     "exec_plain": plain(o), "survives": True,
                     "rows": [[relenc.enc_cell(rk, c) for c in row] for row in rows] or [[[9, 9, 9]]] if ex == "ok" and rows else [],
                     "ref_rows": [[relenc.enc_cell(rk, c) for c in row] for row in ref] if ex == "ok" else []})
        back.append(("rel", o))
    # TLC's JSON reader needs homogeneous shapes: give empty row lists a typed placeholder pair
    for x in recs:
        if x["kind"] == "rel":
            if not x["rows"] and not x["ref_rows"]:
                x["rows"] = [[[9, 9, 9]]]
                x["ref_rows"] = [[[9, 9, 9]]]
            elif not x["rows"]:
                x["rows"] = [[[8, 8, 8]]]
            elif not x["ref_rows"]:
                x["ref_rows"] = [[[8, 8, 8]]]
    tr, fails, _ = C.validate_trace_chunked("Trace_Dialects", "Trace_Dialects.cfg", recs, wd, "c17_judge", chunk=6000, parallel=4, timeout=3000)
    rep = C.Reporter(PID)
    for i, judge in fails:
        kind, o = back[i - 1]
        d = o["dialect"]
        if kind == "ident":
            name = o["name"]
            cls = ident_class(name, d)
            detail = norm_err(o["parse"] if judge == "ParserAccepts" else o["reread"] if judge == "ReaderAccepts" else o.get("exec_plain") if judge == "EngineAccepts" else "")
            key = f"{judge}/{d}/ident:{cls}" + (f"/{detail}" if detail else "")
            sample = {"engine": "dl-ident", "identifier": name, "dialect": d, "quoted": o["quoted"], "sql": o.get("sql"), "parse": o["parse"], "reread": o["reread"],
                      "names": o.get("names"), "exec": o.get("exec"), "exec_stock_sqlite": o.get("exec_plain")}
        else:
            c = rcases[o["id"]]
            if judge == "ParserAccepts":
                detail = norm_err(o["parse"])
            elif judge == "ReaderAccepts":
                detail = norm_err(o["reread"])
            elif judge == "EngineAccepts":
                detail = norm_err(o.get("exec_plain"))
            elif judge == "EngineSameRows" and re.search(r"AS \(SELECT (FIRST\([^)]*\) AS \S+(, )?)+ FROM \S+\)", o.get("sql") or ""):
                detail = "ungrouped-reduce-of-FIRST"
            elif judge == "SameTypes":
                td = o.get("type_diff") or {}
                if "THEN 1 ELSE 0 END" in (o.get("sql") or ""):
                    # one family whatever column shows it first: a comparison written CASE WHEN .. THEN 1 ELSE 0 END reads back as a number
                    detail = "comparison-written-as-case-when"
                else:
                    detail = f"{norm_type(td.get('before'))}->{norm_type(td.get('after'))}"
            elif judge == "RenderSucceeds":
                detail = norm_err(o["render"])
            else:
                detail = "+".join(sql_features(o.get("sql")))
            key = f"{judge}/{d}/{detail}"
            sample = {"engine": "dl-run", "sql": c["sql"], "tables": c["tables"], "mode": c["mode"], "dialect": d, "translated": o.get("sql"), "parse": o["parse"],
                      "reread": o["reread"], "names": o.get("names"), "type_diff": o.get("type_diff"), "exec": o.get("exec"), "exec_stock_sqlite": o.get("exec_plain"),
                      "rows": o.get("rows"), "reference_rows": o.get("ref_rows")}
        rep.fail(key, f"judge {judge} failed", sample)
    # ---- binding self-test
    st = {}
    good = next((x for x in recs if x["kind"] == "ident" and x["chars"] and x["parse"] == "ok" and x["survives"] and x["reread"] == "ok" and x["names_same"]), None)
    good_r = next((x for x in recs if x["kind"] == "rel" and x["dialect"] == "sqlite" and x["exec"] == "ok" and len(x["rows"]) >= 1 and x["rows"] != [[[9, 9, 9]]]), None)
    if good and good_r:
        a = copy.deepcopy(good); a["quoted"] = a["quoted"][:-1] + ["sq"]
        b = copy.deepcopy(good); b["lexed"] = [["sp", "sp", "sp", "sp"]]
        c = copy.deepcopy(good); c["names_same"] = False
        d = copy.deepcopy(good_r); d["rows"] = d["rows"] + [d["rows"][0]]
        sp = os.path.join(wd, "selftest.ndjson")
        C.write_ndjson(sp, [a, b, c, d])
        _, f2, _ = C.validate_trace("Trace_Dialects", "Trace_Dialects.cfg", sp, "c17_selftest")
        got = set(f2)
        st = {"wrong_quote_flagged": (1, "DialectQuoting") in got, "scanner_flagged": (2, "ScannerRoundTrip") in got,
              "names_flagged": (3, "SameNames") in got, "rows_flagged": (4, "EngineSameRows") in got}
    if not st or not all(st.values()):
        raise C.ToolError(f"binding self-test failed: {st}")
    code, viol, known = rep.finish()
    by_d = {}
    for kind, o in back:
        if kind == "rel":
            s = by_d.setdefault(o["dialect"], {"translated": 0, "parsed": 0, "read_back": 0, "same_names": 0, "same_types": 0})
            s["translated"] += o["render"] == "ok"
            s["parsed"] += o["parse"] == "ok"
            s["read_back"] += o["reread"] == "ok"
            s["same_names"] += bool(o.get("names_same"))
            s["same_types"] += bool(o.get("types_same"))
    coverage = {
        "states": r.distinct, "transitions": r.generated, "traces_validated_against_impl": len(recs),
        "samples": [rcases[0]["sql"], rcases[len(rcases) // 2]["sql"], rcases[-1]["sql"]],
        "rule": "identifiers: every sequence of 1..3 abstract characters (letter, upper-case letter, space, the quote characters \" ` ' ], dot) of spec/Dialects.tla plus 12 reserved or unusual words, as a column name and alias of a small relation, x 8 dialects; relations: 10 hand-picked queries + a seeded sample of the queries of spec/QueryShapes.tla (plain), and the privacy-unit-preserving and differentially private rewritings of a seeded sample of its aggregations, x 8 dialects; SQLite is the only offline engine",
        "exhaustive": False, "identifiers": len(cases), "relations": built // 8, "relations_requested": len(rcases), "dialects": 8,
        "distinct_nontrivial": sum(1 for x in recs if x["parse"] == "ok"), "per_dialect": by_d,
        "sqlite_executions_compared": sum(1 for x in recs if x["kind"] == "rel" and x["exec"] == "ok"),
        "binding_selftest": st, "failures_by_key": {k: v["count"] for k, v in rep.by_key.items()}, "known_findings_reproduced": known,
        "model_cmd": r.cmd, "checker_cmd": tr.cmd if tr else "",
    }
    C.write_evidence(PID, tier, "model_checking", coverage,
                     ["'accepted by the dialect's parser' is sqlparser 0.46's parser for that dialect (the one the library reads with); no MySQL / MS SQL / BigQuery / Hive / Databricks / Redshift / PostgreSQL engine exists offline, so meaning is compared by execution on SQLite only",
                      "the SQLite reference execution is the harness's own executable rendering of the same relation (PostgreSQL-flavoured, harness UDFs), with every random source pinned",
                      "type equality after reading back is DataType equality of the output columns"], time.time() - t0, viol)
    return code


def replay(path):
    print("re-run `bin/check C17`; the failing case is in the replay file")
    return 2
