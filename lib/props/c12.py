"""C12 — type conversions are value-preserving injections within the converted type (spec/Convert.tla, spec/Trace_Convert.tla)."""
import copy
import os
import time

import common as C

PID = "C12"


def kind(t):
    if t["k"] == "opt":
        return "opt_" + t["t"]["k"]
    if t["k"] == "struct":
        return "struct_" + t["fields"][0]["t"]["k"]
    return t["k"]


def shape(t):
    """the shape of the source value set: single / values / interval"""
    while t["k"] in ("opt",):
        t = t["t"]
    if t["k"] == "struct":
        t = t["fields"][0]["t"]
    ivs = t.get("ivs", [])
    if all(a == b for a, b in ivs):
        return "values" if len(ivs) > 1 else "single"
    return "interval"


def run(tier, t0):
    r = C.tlc("MC_Convert", "MC_Convert.cfg", "c12_cases", workers=1, timeout=600)
    C.require_model_ok(r, "Convert.tla")
    cases = r.json_payloads("REPLAY")
    wd = C.workdir("c12")
    cp = os.path.join(wd, "cases.ndjson")
    C.write_ndjson(cp, [{"n": 5}] + cases)
    op = os.path.join(wd, "obs.ndjson")
    C.qv(["dt-convert"], stdin_path=cp, stdout_path=op, timeout=3000)
    obs = C.read_ndjson(op)
    recs = []
    for o in obs:
        c = cases[o["case"]]
        recs.append({"case": o["case"], "emb": o["emb"], "to": o["to"], "src": c["a"]["k"], "may": bool(c["may"]),
                     "type_conv": o["type_conv"] if o["type_conv"] in ("ok", "err") else "panic",
                     "vals": [{"out": v["out"], "image_id": v["image_id"], "in_converted": bool(v["in_converted"]), "back": v["back"],
                               "integral": bool(v["integral"]), "is01": bool(v["is01"])} for v in o["vals"]]})
    tp = os.path.join(wd, "trace.ndjson")
    C.write_ndjson(tp, recs)
    tr, fails, _ = C.validate_trace("Trace_Convert", "Trace_Convert.cfg", tp, "c12_judge", timeout=3000, heap="8g")
    rep = C.Reporter(PID)
    drift = {}
    for i, judge in fails:
        o = obs[i - 1]
        c = cases[o["case"]]
        if judge.startswith("drift:"):
            drift.setdefault(f"{judge}/{kind(c['a'])}->{o['to']}", 0)
            drift[f"{judge}/{kind(c['a'])}->{o['to']}"] += 1
            continue
        bad = [v for v in o["vals"] if v["out"] != "ok" or not v["in_converted"] or v["back"] in ("different", "panic", "err")][:4]
        rep.fail(f"{judge}/{kind(c['a'])}->{o['to']}/{o['emb']}", f"judge {judge} failed",
                 {"engine": "dt-convert", "case": {"a": c["a"], "to": o["to"], "embedding": o["emb"], "type_conv": o["type_conv"], "msg": o.get("msg"), "values": bad or o["vals"][:4]}})
    # binding self-test: a forged record is flagged
    st = {}
    for rec in recs:
        ok = [j for j, v in enumerate(rec["vals"]) if v["out"] == "ok" and v["in_converted"]]
        if rec["type_conv"] == "ok" and len(ok) >= 2:
            forged = []
            a = copy.deepcopy(rec); a["vals"][ok[0]]["in_converted"] = False; forged.append(a)
            b = copy.deepcopy(rec); b["vals"][ok[1]]["image_id"] = b["vals"][ok[0]]["image_id"]; forged.append(b)
            d = copy.deepcopy(rec); d["vals"][ok[0]]["back"] = "different"; forged.append(d)
            sp = os.path.join(wd, "selftest.ndjson")
            C.write_ndjson(sp, forged)
            _, f2, _ = C.validate_trace("Trace_Convert", "Trace_Convert.cfg", sp, "c12_selftest")
            got = {(i, j) for i, j in f2}
            st = {"image_outside_flagged": (1, "ImageContained") in got, "collision_flagged": (2, "Injective") in got, "round_trip_flagged": (3, "RoundTrip") in got}
            break
    if not st or not all(st.values()):
        raise C.ToolError(f"binding self-test failed: {st}")
    code, viol, known = rep.finish()
    conv = sum(1 for x in recs if x["type_conv"] == "ok")
    coverage = {
        "states": r.distinct, "transitions": r.generated, "traces_validated_against_impl": len(recs),
        "samples": [{"a": cases[o["case"]]["a"], "to": o["to"], "embedding": o["emb"], "type_conv": o["type_conv"]} for o in obs[7:: max(1, len(obs) // 3 + 11)]][:3],
        "evaluations": sum(len(o["vals"]) for o in obs), "distinct_nontrivial": conv,
        "rule": "source types of spec/Convert.tla (6 ordered kinds x 9 shapes of value sets and intervals, optional and one-field struct liftings) x 10 targets (the 6 kinds, bytes, optional integer, optional of the same kind, a struct) under 3 order embeddings (small values; i64 / f64 / date extremes, the empty string and U+10FFFF; the 2^53 boundary), every universe value of the source type; non-trivial = the library accepts the type-level conversion",
        "exhaustive": True, "cases": len(cases), "embeddings": len({o["emb"] for o in obs}),
        "conversions_accepted": conv, "conversions_refused": sum(1 for x in recs if x["type_conv"] == "err"),
        "values_converted": sum(1 for o in obs for v in o["vals"] if v["out"] == "ok"),
        "round_trips_checked": sum(1 for o in obs for v in o["vals"] if v["back"] == "same"),
        "drift_model_vs_code": drift, "binding_selftest": st,
        "failures_by_key": {k: v["count"] for k, v in rep.by_key.items()}, "known_findings_reproduced": known, "checker_cmd": tr.cmd,
    }
    C.write_evidence(PID, tier, "model_checking", coverage,
                     ["equality of images is equality of the Debug rendering of the converted value",
                      "the duration and time kinds, and the list / set / array liftings, are outside the universe of spec/DataTypes.tla",
                      "membership of the image in the converted type is the library's own contains (same variant by construction)"], time.time() - t0, viol)
    return code


def replay(path):
    """Re-run the case of a replay file through the real conversions and the TLC judge; exit 1 if it fails again."""
    import json
    rec = json.load(open(path))
    case = rec["sample"]["case"]
    wd = C.workdir("c12_replay")
    cp, op = os.path.join(wd, "case.ndjson"), os.path.join(wd, "obs.ndjson")
    C.write_ndjson(cp, [{"n": 5}, {"a": case["a"], "to": case["to"]}])
    C.qv(["dt-convert"], stdin_path=cp, stdout_path=op, timeout=600)
    obs = [o for o in C.read_ndjson(op) if o["emb"] == case["embedding"]]
    recs = [{"case": 0, "emb": o["emb"], "to": o["to"], "src": case["a"]["k"], "may": True, "type_conv": o["type_conv"] if o["type_conv"] in ("ok", "err") else "panic",
             "vals": [{"out": v["out"], "image_id": v["image_id"], "in_converted": bool(v["in_converted"]), "back": v["back"], "integral": bool(v["integral"]), "is01": bool(v["is01"])} for v in o["vals"]]} for o in obs]
    tp = os.path.join(wd, "trace.ndjson")
    C.write_ndjson(tp, recs)
    _, fails, _ = C.validate_trace("Trace_Convert", "Trace_Convert.cfg", tp, "c12_replay")
    print(json.dumps(obs)[:2000])
    if [f for f in fails if not f[1].startswith("drift:")]:
        print(f"VIOLATION property={PID} replay={path}")
        return 1
    return 0
