"""C08 — SQL -> Relation -> SQL preserves query results (see lib/relengine.py)."""
import relengine

PID = "C08"


# Query texts outside what spec/QueryShapes.tla generates (scoping corners the builder state machine has no action for).
# They go through the same pipeline and the same judges; they are hand-written, not enumerated by TLC.
SPECIAL = [
    # a CTE and, in the same FROM, a derived table with its own CTE of the same name
    "WITH w AS (SELECT a FROM t WHERE a > 0) SELECT o.a AS big, s.a AS small FROM w AS o JOIN (WITH w AS (SELECT a FROM t WHERE a <= 0) SELECT a FROM w) AS s ON o.a = s.a + 1",
    "WITH w AS (SELECT a, c FROM u) SELECT x.a AS a, y.c AS c FROM w AS x JOIN (WITH w AS (SELECT a, c FROM u WHERE c > 0) SELECT a, c FROM w) AS y ON x.a = y.a",
    # two CTEs, the second reading the first
    "WITH w AS (SELECT a, b FROM t), v AS (SELECT a FROM w WHERE b > 0) SELECT v.a AS a, w.b AS b FROM v JOIN w ON v.a = w.a",
    # a derived table named like a CTE defined outside it
    "WITH w AS (SELECT a FROM u) SELECT d.a AS a FROM (SELECT a + 1 AS a FROM w) AS d JOIN w ON d.a = w.a",
    # the same table three times under different aliases
    "SELECT p.a AS pa, q.a AS qa, r.c AS rc FROM u AS p JOIN u AS q ON p.a = q.c JOIN u AS r ON q.a = r.a",
    # ORDER BY / LIMIT inside a derived table that is aggregated
    "SELECT COUNT(a) AS n, SUM(a) AS s FROM (SELECT a FROM t ORDER BY a DESC, b DESC, s DESC LIMIT 2) AS d",
    "SELECT COUNT(a) AS n FROM (SELECT a FROM t ORDER BY a ASC, b ASC, s ASC LIMIT 2 OFFSET 1) AS d",
    # DISTINCT over an expression, IN list, BETWEEN-like conjunction
    "SELECT DISTINCT (a + b) AS x FROM t WHERE a IN (0, 2) AND b >= 0",
]
DBS = [
    {"t": {"rows": [[0, 1, 100], [1, -9999, 101], [2, 2, 102]]}, "u": {"rows": [[0, 1], [2, -9999]]}},
    {"t": {"rows": [[1, 0, 100], [1, 2, 100], [0, 0, 102]]}, "u": {"rows": [[1, 2], [0, 0], [2, 1]]}},
    {"t": {"rows": []}, "u": {"rows": [[1, 1]]}},
]


def special_part(rep, tier):
    import os
    import common as C
    import relenc
    import sqlgen
    cases = []
    for s in SPECIAL:
        for k, db in enumerate(DBS):
            cases.append({"id": len(cases), "sql": s, "tables": sqlgen.tables(db, variant=k % 2), "okeys": [], "total": False})
    wd = C.workdir("c08s")
    cp, op = os.path.join(wd, "cases.ndjson"), os.path.join(wd, "obs.ndjson")
    C.write_ndjson(cp, [{"id": c["id"], "sql": c["sql"], "tables": c["tables"]} for c in cases])
    C.qv(["sql-run"], stdin_path=cp, stdout_path=op, timeout=600)
    obs = C.read_ndjson(op)
    recs = [relenc.encode(o, c) for o, c in zip(obs, cases)]
    tp = os.path.join(wd, "trace.ndjson")
    C.write_ndjson(tp, recs)
    tr, fails, _ = relengine.validate(tp, "c08_special_judge")
    for f in fails:
        i, judge = f[0], f[1]
        if relengine.JUDGE_PROP.get(judge) != PID:
            continue
        c, o = cases[i - 1], obs[i - 1]
        rep.fail(f"special/{judge}/{SPECIAL.index(c['sql'])}", f"judge {judge} failed on a hand-written query",
                 {"engine": "sql-run", "case": {"sql": c["sql"], "tables": c["tables"], "rendered": o.get("rendered"), "original_result": o.get("orig"), "rendered_result": o.get("rend")}})
    return {"queries": len(SPECIAL), "databases": len(DBS), "compiled": sum(1 for r in recs if r["outcome"] == "ok"),
            "compared": sum(1 for r in recs if r.get("cmp") == 1), "outcomes": {s[:60]: recs[k * len(DBS)]["outcome"] + ":" + str(recs[k * len(DBS)].get("stage", "")) for k, s in enumerate(SPECIAL)}}


def run(tier, t0):
    return relengine.report(PID, tier, t0, [
        "hand-written queries (lib/props/c08.py SPECIAL) cover scoping corners outside the generator: they are judged like the others but are not enumerated by TLC",
        "SQLite 3.40 as the executor of original and rendered SQL (UDFs of harness/src/sqlx.rs)",
        "rank encoding of values and bounds (lib/relenc.py); TLC decides containment",
        "generated fragment: spec/QueryShapes.tla over two tables, values 0..2, NULL, three strings",
    ], extra=special_part)


def replay(path):
    import json, os, common as C, relenc
    rec = json.load(open(path))
    case = rec["sample"]["case"]
    wd = C.workdir("rel_replay")
    cp = os.path.join(wd, "case.ndjson")
    C.write_ndjson(cp, [{"id": 0, "sql": case["sql"], "tables": case["tables"]}])
    out = C.qv(["sql-run"], stdin_path=cp)
    obs = json.loads(out.strip().splitlines()[0])
    r = relenc.encode(obs, {"okeys": [], "total": False})
    tp = os.path.join(wd, "trace.ndjson")
    C.write_ndjson(tp, [r])
    _, fails, _ = relengine.validate(tp, "rel_replay_t")
    print(json.dumps(obs)[:3000])
    mine = [f for f in fails if relengine.JUDGE_PROP[f[1]] == rec["property"]]
    if mine:
        print(f"VIOLATION property={rec['property']} replay={path}")
        return 1
    return 0
