"""C08 — SQL -> Relation -> SQL preserves query results (see lib/relengine.py)."""
import json

import relengine

PID = "C08"


# Query texts outside what spec/QueryShapes.tla generates (scoping corners the builder state machine has no action for).
# They go through the same pipeline and the same judges; they are hand-written, not enumerated by TLC.
SPECIAL = [
    # a CTE and, in the same FROM, a derived table with its own CTE of the same name
    "WITH w AS (SELECT a FROM t WHERE a > 0) SELECT o.a AS big, s.a AS small FROM w AS o JOIN (WITH w AS (SELECT a FROM t WHERE a <= 0) SELECT a FROM w) AS s ON o.a = s.a + 1",
    "WITH w AS (SELECT a, c FROM u) SELECT x.a AS a, y.c AS c FROM w AS x JOIN (WITH w AS (SELECT a, c FROM u WHERE c > 0) SELECT a, c FROM w) AS y ON x.a = y.a",
    # two CTEs, the second reading the first
    "WITH w AS (SELECT a, b FROM t), v AS (SELECT a FROM w WHERE b > 0) SELECT v.a AS a, w.b AS b FROM v JOIN w ON v.a = w.a",
    # a derived table named like a CTE defined outside it
    "WITH w AS (SELECT a FROM u) SELECT d.a AS a FROM (SELECT a + 1 AS a FROM w) AS d JOIN w ON d.a = w.a",
    # the same table three times under different aliases
    "SELECT p.a AS pa, q.a AS qa, r.c AS rc FROM u AS p JOIN u AS q ON p.a = q.c JOIN u AS r ON q.a = r.a",
    # ORDER BY / LIMIT inside a derived table that is aggregated
    "SELECT COUNT(a) AS n, SUM(a) AS s FROM (SELECT a FROM t ORDER BY a DESC, b DESC, s DESC LIMIT 2) AS d",
    "SELECT COUNT(a) AS n FROM (SELECT a FROM t ORDER BY a ASC, b ASC, s ASC LIMIT 2 OFFSET 1) AS d",
    # OFFSET as the only tail clause (SQLite needs LIMIT -1 with it, so the generator never writes it); counted, because which rows
    # are skipped is not determined without ORDER BY
    "SELECT COUNT(a) AS n FROM (SELECT a FROM t OFFSET 1) AS d",
    "WITH w AS (SELECT a, c FROM u OFFSET 2) SELECT COUNT(a) AS n FROM w",
    "SELECT COUNT(a) AS n FROM (SELECT a FROM t ORDER BY a OFFSET 1) AS d",
    # DISTINCT over an expression, IN list, BETWEEN-like conjunction
    "SELECT DISTINCT (a + b) AS x FROM t WHERE a IN (0, 2) AND b >= 0",
]
DBS = [
    {"t": {"rows": [[0, 1, 100], [1, -9999, 101], [2, 2, 102]]}, "u": {"rows": [[0, 1], [2, -9999]]}},
    {"t": {"rows": [[1, 0, 100], [1, 2, 100], [0, 0, 102]]}, "u": {"rows": [[1, 2], [0, 0], [2, 1]]}},
    {"t": {"rows": []}, "u": {"rows": [[1, 1]]}},
]


def special_part(rep, tier):
    import os
    import common as C
    import relenc
    import sqlgen
    cases = []
    for s in SPECIAL:
        for k, db in enumerate(DBS):
            cases.append({"id": len(cases), "sql": s, "tables": sqlgen.tables(db, variant=k % 2), "okeys": [], "total": False})
    wd = C.workdir("c08s")
    cp, op = os.path.join(wd, "cases.ndjson"), os.path.join(wd, "obs.ndjson")
    C.write_ndjson(cp, [{"id": c["id"], "sql": c["sql"], "tables": c["tables"]} for c in cases])
    C.qv(["sql-run"], stdin_path=cp, stdout_path=op, timeout=600)
    obs = C.read_ndjson(op)
    recs = [relenc.encode(o, c) for o, c in zip(obs, cases)]
    tp = os.path.join(wd, "trace.ndjson")
    C.write_ndjson(tp, recs)
    tr, fails, _ = relengine.validate(tp, "c08_special_judge")
    for f in fails:
        i, judge = f[0], f[1]
        if relengine.JUDGE_PROP.get(judge) != PID:
            continue
        c, o = cases[i - 1], obs[i - 1]
        rep.fail(f"special/{judge}/{SPECIAL.index(c['sql'])}", f"judge {judge} failed on a hand-written query",
                 {"engine": "sql-run", "case": {"sql": c["sql"], "tables": c["tables"], "rendered": o.get("rendered"), "original_result": o.get("orig"), "rendered_result": o.get("rend")}})
    return {"queries": len(SPECIAL), "databases": len(DBS), "compiled": sum(1 for r in recs if r["outcome"] == "ok"),
            "compared": sum(1 for r in recs if r.get("cmp") == 1), "outcomes": {s[:60]: recs[k * len(DBS)]["outcome"] + ":" + str(recs[k * len(DBS)].get("stage", "")) for k, s in enumerate(SPECIAL)}}


def _show(t):
    if t["k"] in ("col", "val", "unbound"):
        return t["n"]
    return t["n"] + "(" + ",".join(_show(x) for x in t["a"]) + ")"


def _shape(t):
    """the term with column names and literals erased: the key of a finding is the shape of the SELECT item"""
    if t["k"] in ("col", "val", "unbound"):
        return t["k"]
    return t["n"] + "(" + ",".join(_shape(x) for x in t["a"]) + ")"


def split_part(rep, tier):
    """spec/Split.tla: the SELECT-list compiler `Split::and` (src/expr/split.rs) as a state machine.  TLC checks that the
    reference three-layer compilation satisfies the judges in every reachable state (RefSound) and that the judges refuse a
    chain that forgets the grouping or swaps two outputs (RefTight*); every reachable state is then compiled by the real
    `Split::and`, driven like sql/relation.rs drives it (`sp-replay`), and TLC evaluates the same judges on the real chain."""
    import copy
    import os
    import common as C
    runs = [("small", {"MaxG": "1", "MaxOuts": "1"})]
    if tier == "thorough":
        runs.append(("two_items", {"Cols": '{"a"}', "MaxG": "1", "MaxOuts": "2", "WithWhere": "FALSE"}))
        runs.append(("two_groups", {"Lits": "{}", "MaxG": "2", "MaxOuts": "1", "WithWhere": "FALSE"}))
    else:
        runs.append(("two_items", {"Cols": '{"a"}', "Lits": "{}", "MaxG": "1", "MaxOuts": "2"}))
    cases, states, seen = [], 0, set()
    for name, consts in runs:
        r = C.tlc("MC_Split", "MC_Split.cfg", "split_" + name, workers=8, timeout=1500, constants=consts)
        C.require_model_ok(r, f"Split.tla ({name})")
        states += r.distinct
        for c in r.json_payloads("REPLAY"):
            k = json.dumps(c, sort_keys=True)
            if k not in seen:
                seen.add(k)
                cases.append(c)
    wd = C.workdir("split")
    cp, op, cq, oq = (os.path.join(wd, f) for f in ("cases.ndjson", "obs.ndjson", "cases_sql.ndjson", "obs_sql.ndjson"))
    # binding 1: `Split::and` alone, driven like sql/relation.rs drives it (the states without WHERE: Split has no such action)
    C.write_ndjson(cp, [c for c in cases if not c["where"]])
    C.qv(["sp-replay"], stdin_path=cp, stdout_path=op, timeout=1800)
    # binding 2: the same states as SQL text through the real entry point (parser, Split, Map / Reduce builders); the layers
    # are read back from the Relation that was built
    C.write_ndjson(cq, cases)
    C.qv(["sp-sql"], stdin_path=cq, stdout_path=oq, timeout=1800)
    obs = [dict(o, engine="sp-replay", where=[]) for o in C.read_ndjson(op)] + [dict(o, engine="sp-sql") for o in C.read_ndjson(oq)]
    recs = [{"groups": o["groups"], "outs": o["outs"], "where": o["where"], "status": o["status"], "chain": o["chain"]} for o in obs]
    _, fails, _ = C.validate_trace_chunked("Trace_Split", "Trace_Split.cfg", recs, wd, "split_judge", chunk=8000, parallel=4)
    for i, judge in fails:
        o = obs[i - 1]
        shapes = sorted({_shape(x["t"]) for x in o["outs"]})
        rep.fail(f"Split/{judge}/{o['engine']}/{'grouped' if o['groups'] else 'ungrouped'}/{shapes[0] if len(shapes) == 1 else '+'.join(shapes)}"[:200],
                 f"judge {judge} failed on the layers built by the real code ({o['engine']})",
                 {"engine": o["engine"], "sql": o.get("sql"), "group_by": [_show(g) for g in o["groups"]], "select": [[x["n"], _show(x["t"])] for x in o["outs"]],
                  "where": [_show(w) for w in o["where"]], "message": o.get("panic"),
                  "real_chain": [{"kind": L["kind"], "defs": [[d["n"], _show(d["t"])] for d in L["defs"]], "groups": L["groups"], "filter": [_show(f) for f in L["filter"]]} for L in o["chain"]],
                  "case": {"groups": o["groups"], "outs": o["outs"], "where": o["where"]}})
    # binding self-test: a real three-layer chain whose grouping is forgotten / whose top reads a column the Reduce does not define
    good = next((x for x in recs if x["status"] == "ok" and x["groups"] and len(x["chain"]) == 3 and x["chain"][1]["defs"]), None)
    if good is None:
        raise C.ToolError("split binding self-test: no grouped three-layer chain among the observations")
    a = copy.deepcopy(good); a["chain"][1]["groups"] = []
    b = copy.deepcopy(good); b["chain"][1]["defs"] = b["chain"][1]["defs"][1:]
    w = copy.deepcopy(next(x for x in recs if x["status"] == "ok" and x["where"] and len(x["chain"]) == 3))
    w["chain"][0]["filter"], w["chain"][2]["filter"] = w["chain"][2]["filter"], []
    sp = os.path.join(wd, "selftest.ndjson")
    C.write_ndjson(sp, [a, b, w])
    _, f2, _ = C.validate_trace("Trace_Split", "Trace_Split.cfg", sp, "split_selftest")
    if not ((1, "GroupsDenote") in set(f2) and any(i == 2 and j in ("Closed", "DenotesOuts") for i, j in f2) and (3, "FilterDenotes") in set(f2)):
        raise C.ToolError(f"split binding self-test failed: {f2}")
    return {"model_states": states, "configurations": [n for n, _ in runs], "states_compiled_by_real_split": sum(1 for o in obs if o["engine"] == "sp-replay"),
            "states_compiled_from_sql_text": sum(1 for o in obs if o["engine"] == "sp-sql"), "refused_with_error": sum(1 for o in obs if o["status"] == "error"),
            "real_panics": sum(1 for o in obs if o["status"] == "panic"), "layers_judged": sum(len(o["chain"]) for o in obs),
            "judges": ["SplitPanics", "Alternates", "MapsPure", "ReducesShaped", "NoNameClash", "Closed", "DenotesOuts", "NoExtraOutputs", "GroupsDenote", "ReduceIffAggregated", "FilterDenotes", "Refused"],
            "model_invariants": ["TypeOK", "RefSound", "RefTight", "RefTight2", "RefTight3"],
            "binding_selftest": {"forgotten_grouping_flagged": True, "undefined_column_flagged": True, "hoisted_where_flagged": True}}


def both_parts(rep, tier):
    return {"hand_written": special_part(rep, tier), "split_state_machine": split_part(rep, tier)}


def run(tier, t0):
    return relengine.report(PID, tier, t0, [
        "hand-written queries (lib/props/c08.py SPECIAL) cover scoping corners outside the generator: they are judged like the others but are not enumerated by TLC",
        "SQLite 3.40 as the executor of original and rendered SQL (UDFs of harness/src/sqlx.rs)",
        "rank encoding of values and bounds (lib/relenc.py); TLC decides containment",
        "generated fragment: spec/QueryShapes.tla over two tables, values 0..2, NULL, three strings",
        "spec/Split.tla: terms of depth <= 2 over two columns, one literal, Opposite / Plus / Sum; the chain is compared with the SELECT list modulo first(x) = x",
    ], extra=both_parts)


def replay(path):
    import json, os, common as C, relenc
    rec = json.load(open(path))
    case = rec["sample"]["case"]
    wd = C.workdir("rel_replay")
    cp = os.path.join(wd, "case.ndjson")
    C.write_ndjson(cp, [{"id": 0, "sql": case["sql"], "tables": case["tables"]}])
    out = C.qv(["sql-run"], stdin_path=cp)
    obs = json.loads(out.strip().splitlines()[0])
    r = relenc.encode(obs, {"okeys": [], "total": False})
    tp = os.path.join(wd, "trace.ndjson")
    C.write_ndjson(tp, [r])
    _, fails, _ = relengine.validate(tp, "rel_replay_t")
    print(json.dumps(obs)[:3000])
    mine = [f for f in fails if relengine.JUDGE_PROP[f[1]] == rec["property"]]
    if mine:
        print(f"VIOLATION property={rec['property']} replay={path}")
        return 1
    return 0
