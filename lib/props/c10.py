"""C10 — WHERE / ON narrowing never drops a row that satisfies the predicate (spec/ExprCases.tla Predicates, spec/Trace_Filter.tla)."""
import json
import os
import time

import common as C

PID = "C10"


def pname(e):
    if "f" in e:
        inner = [pname(a) for a in e["args"] if isinstance(a, dict) and ("f" in a)]
        lits = "lit" if any(("lit" in a or "list" in a) for a in e["args"] if isinstance(a, dict)) else ""
        return e["f"] + ("(" + ",".join(inner) + ")" if inner else ("[" + lits + "]" if lits else ""))
    return "col"


def mixed_atoms(e, cols):
    """the comparison / membership atoms whose operands are of different numeric kinds: column vs column, or
    column vs literal (the signature of the 2^53 precision family)"""
    def k_of(a):
        if "col" in a:
            t = cols[a["col"]]
            return t["t"]["k"] if t["k"] == "opt" else t["k"]
        if "lit" in a:
            return a["lit"]["k"]
        if "list" in a:
            ks = {v["k"] for v in a["list"]}
            return ks.pop() if len(ks) == 1 else "mixed"
        return None
    out = set()
    if "f" in e:
        ks = [k_of(a) for a in e["args"] if isinstance(a, dict)]
        if len(ks) == 2 and None not in ks and ks[0] != ks[1]:
            out.add(e["f"])
        for a in e["args"]:
            if isinstance(a, dict):
                out |= mixed_atoms(a, cols)
    return out


def kinds(cols):
    def k(t):
        return "opt_" + t["t"]["k"] if t["k"] == "opt" else t["k"]
    return ",".join(k(t) for t in cols)


def join_part(rep, tier, cases, wd):
    """The same predicates as the ON condition of l(c0) JOIN r(c1), for the four join kinds (spec/Trace_JoinFilter.tla).
    A seeded subset of the cases (the join is built for 4 kinds x 5 embeddings)."""
    import copy
    import random
    rng = random.Random(C.seed() + 10)
    two = [c for c in cases if c["cols"][0]["k"] != "opt" or True]
    sub = rng.sample(two, min(len(two), 600 if tier == "quick" else 6000))
    obs = C.qv_sharded(["dt-joinfilter"], {"n": 5}, sub, wd, shards=12, timeout=6000)
    recs = [{"case": o["case"], "emb": o["emb"], "kind": o["kind"], "join": o["join"] if o["join"] == "ok" else "panic",
             "l_nullable": bool(o["l_nullable"]), "r_nullable": bool(o["r_nullable"]),
             "rows": [{"pred": x["pred"], "l_in": bool(x["l_in"]), "r_in": bool(x["r_in"])} for x in o["rows"]] or [{"pred": "none", "l_in": True, "r_in": True}]} for o in obs]
    tr, fails, _ = C.validate_trace_chunked("Trace_JoinFilter", "Trace_JoinFilter.cfg", recs, wd, "c10_join", chunk=12000, parallel=5, timeout=6000, heap="6g")
    failing_embs = {}
    for i, judge in fails:
        failing_embs.setdefault((obs[i - 1]["case"], obs[i - 1]["kind"], judge), set()).add(obs[i - 1]["emb"])
    for i, judge in fails:
        o = obs[i - 1]
        c = sub[o["case"]]
        xa = mixed_atoms(c["pred"], c["cols"])
        if failing_embs[(o["case"], o["kind"], judge)] == {"p53"} and xa:
            key = f"on/{judge}/{o['kind']}/p53-mixed-int-float/{kinds(c['cols'])}"
        else:
            key = f"on/{judge}/{o['kind']}/{pname(c['pred'])}/{kinds(c['cols'])}"
        bad = [x for x in o["rows"] if (x["pred"] == "true" and not (x["l_in"] and x["r_in"])) or not x["l_in"] or not x["r_in"]][:4]
        rep.fail(key, f"judge {judge} failed on the ON clause of a {o['kind']} join",
                 {"engine": "dt-joinfilter", "case": {"pred": c["pred"], "cols": c["cols"], "kind": o["kind"], "embedding": o["emb"], "left_output_type": o.get("l_type"),
                                                        "right_output_type": o.get("r_type"), "rows": bad, "msg": o.get("msg")}})
    good = next((x for x in recs if x["join"] == "ok" and x["kind"] == "inner" and any(y["pred"] == "true" for y in x["rows"])), None)
    st = {}
    if good:
        a = copy.deepcopy(good)
        j = next(k for k, y in enumerate(a["rows"]) if y["pred"] == "true")
        a["rows"][j]["r_in"] = False
        b = copy.deepcopy(good); b["kind"] = "left"; b["r_nullable"] = False
        sp = os.path.join(wd, "selftest_join.ndjson")
        C.write_ndjson(sp, [a, b])
        _, f2, _ = C.validate_trace("Trace_JoinFilter", "Trace_JoinFilter.cfg", sp, "c10_join_selftest")
        st = {"dropped_pair_flagged": (1, "MatchedPairKept") in set(f2), "non_nullable_padded_side_flagged": (2, "NullPaddedSide") in set(f2)}
    if not st or not all(st.values()):
        raise C.ToolError(f"binding self-test of Trace_JoinFilter failed: {st}")
    return {"cases": len(sub), "records": len(recs), "join_kinds": 4, "embeddings": 5,
            "pairs_where_predicate_true": sum(1 for x in recs for y in x["rows"] if y["pred"] == "true"), "binding_selftest": st, "checker_cmd": tr.cmd if tr else ""}


def run(tier, t0):
    thin = 8 if tier == "quick" else 1
    r = C.tlc("MC_Functions", "MC_Functions.cfg", "c10_cases", workers=4, timeout=3000, constants={"Which": '"filter"', "Thin": thin},
              extra=["-seed", str(C.seed() + 5)], heap="8g")
    C.require_model_ok(r, "ExprCases.tla (filter cases)")
    cases = r.json_payloads("REPLAY")
    wd = C.workdir("c10")
    obs = C.qv_sharded(["dt-filter"], {"n": 5}, cases, wd, shards=12, timeout=6000)
    # what TLC judges: per row the truth value of the predicate and the two memberships; the row values themselves
    # and the narrowed type stay in the observations (they are only needed to describe a failure)
    recs = [{"case": o["case"], "emb": o["emb"], "filter": o["filter"] if o["filter"] == "ok" else "panic",
             "rows": [{"pred": x["pred"], "in": bool(x["in"]), "in_input": bool(x["in_input"])} for x in o["rows"]]} for o in obs]
    for o in obs:
        o["rows"] = [x for x in o["rows"] if x["pred"] == "true" and x["in_input"] and not x["in"]][:4]
    tr, fails, _ = C.validate_trace_chunked("Trace_Filter", "Trace_Filter.cfg", recs, wd, "c10_judge", chunk=12000, parallel=5, timeout=6000, heap="6g")
    rep = C.Reporter(PID)
    failing_embs = {}
    for i, judge in fails:
        failing_embs.setdefault((obs[i - 1]["case"], judge), set()).add(obs[i - 1]["emb"])
    for i, judge in fails:
        o = obs[i - 1]
        c = cases[o["case"]]
        # failures that only show at the 2^53 boundary and involve an int/float comparison are one family per set of operators
        xa = mixed_atoms(c["pred"], c["cols"])
        if failing_embs[(o["case"], judge)] == {"p53"} and xa:
            key = f"{judge}/p53-mixed-int-float/{kinds(c['cols'])}"
        else:
            key = f"{judge}/{pname(c['pred'])}/{kinds(c['cols'])}"
        rep.fail(key, f"judge {judge} failed",
                 {"engine": "dt-filter", "case": {"pred": c["pred"], "cols": c["cols"], "embedding": o["emb"], "narrowed": o["narrowed"],
                                                    "dropped_rows": [x["row"] for x in o["rows"]]}})
    join_cov = join_part(rep, tier, cases, wd)
    import copy
    st = {}
    for rec in recs:
        k = [j for j, x in enumerate(rec["rows"]) if x["pred"] == "true" and x["in_input"] and x["in"]]
        if rec["filter"] == "ok" and k:
            rr = copy.deepcopy(rec)
            rr["rows"][k[0]]["in"] = False
            sp = os.path.join(wd, "selftest.ndjson")
            C.write_ndjson(sp, [rr])
            _, f2, _ = C.validate_trace("Trace_Filter", "Trace_Filter.cfg", sp, "c10_selftest")
            st["dropped_row_flagged"] = any(j == "NarrowKeepsRow" for _, j in f2)
            break
    if not st or not all(st.values()):
        raise C.ToolError(f"binding self-test failed: {st}")
    code, viol, known = rep.finish()
    coverage = {
        "states": r.distinct, "transitions": r.generated, "traces_validated_against_impl": len(recs),
        "samples": [{"pred": cases[o["case"]]["pred"], "cols": cases[o["case"]]["cols"], "narrowed": o["narrowed"]} for o in obs[:: max(1, len(obs) // 3)]][:3],
        "evaluations": sum(len(o["rows"]) for o in obs),
        "distinct_nontrivial": sum(1 for rec in recs if any(x["pred"] == "true" for x in rec["rows"]) and any(x["pred"] != "true" for x in rec["rows"])),
        "rule": "predicates of spec/ExprCases.tla (comparisons of a column with a literal in both operand orders and with another column, is_null, an arithmetic term the narrowing does not understand; NOT, AND, OR of two atoms; NOT of AND / OR of two atoms, double negation, a negated compound under AND) x pairs of column types (intervals, value sets, optional, int/float) enumerated by TLC (quick: a seeded 1/8 sample), under 5 order embeddings, every row of universe points (capped at 64); non-trivial = the predicate is true on some rows and not on others",
        "exhaustive": tier == "thorough", "cases": len(cases), "embeddings": 5,
        "rows_where_predicate_true": sum(1 for rec in recs for x in rec["rows"] if x["pred"] == "true"),
        "on_clause": join_cov,
        "binding_selftest": st, "failures_by_key": {k: v["count"] for k, v in rep.by_key.items()}, "known_findings_reproduced": known, "checker_cmd": tr.cmd,
    }
    C.write_evidence(PID, tier, "model_checking", coverage,
                     ["the truth value of the predicate on a row is the library's own Expr::value (three-valued: true / false / NULL)",
                      "membership of a row in the narrowed struct type is the library's contains on a struct value (same variant)"], time.time() - t0, viol)
    return code


def replay(path):
    """Re-run the case of a replay file through the real code and the TLC judge; exit 1 if it fails again."""
    rec = json.load(open(path))
    s = rec["sample"]
    case = s["case"]
    wd = C.workdir("c10_replay")
    cp, op = os.path.join(wd, "case.ndjson"), os.path.join(wd, "obs.ndjson")
    C.write_ndjson(cp, [{"n": 5}, {"pred": case["pred"], "cols": case["cols"]}])
    on_clause = s.get("engine") == "dt-joinfilter"
    C.qv(["dt-joinfilter" if on_clause else "dt-filter"], stdin_path=cp, stdout_path=op, timeout=600)
    obs = [o for o in C.read_ndjson(op) if o["emb"] == case["embedding"] and (not on_clause or o["kind"] == case["kind"])]
    if on_clause:
        recs = [{"case": 0, "emb": o["emb"], "kind": o["kind"], "join": o["join"] if o["join"] == "ok" else "panic", "l_nullable": bool(o["l_nullable"]), "r_nullable": bool(o["r_nullable"]),
                 "rows": [{"pred": x["pred"], "l_in": bool(x["l_in"]), "r_in": bool(x["r_in"])} for x in o["rows"]]} for o in obs]
        spec = "Trace_JoinFilter"
    else:
        recs = [{"case": 0, "emb": o["emb"], "filter": o["filter"] if o["filter"] == "ok" else "panic",
                 "rows": [{"pred": x["pred"], "in": bool(x["in"]), "in_input": bool(x["in_input"])} for x in o["rows"]]} for o in obs]
        spec = "Trace_Filter"
    tp = os.path.join(wd, "trace.ndjson")
    C.write_ndjson(tp, recs)
    _, fails, _ = C.validate_trace(spec, spec + ".cfg", tp, "c10_replay")
    print(json.dumps(obs)[:2000])
    if fails:
        print(f"VIOLATION property={PID} replay={path}")
        return 1
    return 0
