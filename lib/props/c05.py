"""C05 — privacy-unit tracking: a tracked row depends only on its own unit's data (lib/pupengine.py)."""
import copy
import os
import time

import common as C
import pupengine

PID = "C05"


def run(tier, t0):
    cases, obs, recs, fails, drifts, info = pupengine.run(tier)
    rep = C.Reporter(PID)
    for i, judge in fails:
        if judge == "NoPanic":
            continue
        c = cases[i - 1]
        q = c["model"]["q"]
        key = f"{judge}/{q['s']}" + (f"/{q['kind']}" if "kind" in q else "")
        rep.fail(key, f"judge {judge} failed on the real privacy-unit-preserving rewriting",
                 {"engine": "dp-run", "case": {"sql": c["sql"], "pu": c["pu"], "hash_pu": c["hash_pu"], "dbs": c["dbs"], "tables": [t["name"] for t in c["tables"]],
                                               "result_on_D": obs[i - 1]["runs"][0].get("final")}})
    # binding self-test
    st = {}
    for r in recs:
        if r["ok"] and r["full"]:
            rr = copy.deepcopy(r)
            rr["full"][0][rr["pu"] - 1] = [0, 0, 0]
            p = os.path.join(info["wd"], "selftest.ndjson")
            C.write_ndjson(p, [rr])
            _, f, _ = C.validate_trace("Trace_PUP", "Trace_PUP.cfg", p, "pup_selftest")
            st["null_unit_flagged"] = any(j == "PuNonNull" for _, j in f)
            break
    if not st or not all(st.values()):
        raise C.ToolError(f"binding self-test failed: {st}")
    code, viol, known = rep.finish()
    ok = [r for r in recs if r["ok"]]
    shapes = {}
    for c, r in zip(cases, recs):
        q = c["model"]["q"]
        k = q["s"] + ("/" + q["kind"] if "kind" in q else "")
        e = shapes.setdefault(k, {"cases": 0, "judged": 0})
        e["cases"] += 1
        e["judged"] += 1 if r["ok"] else 0
    skipped = {}
    for r in recs:
        if not r["ok"]:
            skipped[r.get("error", "?")[:100]] = skipped.get(r.get("error", "?")[:100], 0) + 1
    coverage = {
        "states": info["states"], "transitions": info["states"], "traces_validated_against_impl": len(ok),
        "samples": [{"sql": c["sql"], "pu": c["pu"], "db": c["dbs"][0], "result": o["runs"][0].get("final") if o.get("runs") else None}
                    for c, o in list(zip(cases, obs))[:: max(1, len(cases) // 4)]][:4],
        "evaluations": len(cases), "distinct_nontrivial": sum(1 for r in ok if r["full"]),
        "rule": "states of spec/PUPTracking.tla visited by TLC in simulation: query shape (map, filter, per-unit aggregation, union, joins of the four kinds with a public table / a tracked table / over an aggregation) x privacy-unit definition (own column, foreign-key path; hashed or not) x databases of <= 3 rows per table; non-trivial = compiled to a tracked relation with a non-empty result on D",
        "exhaustive": False, "shapes": shapes, "not_judged": skipped, "model_drift": len(drifts),
        "binding_selftest": st, "failures_by_key": {k: v["count"] for k, v in rep.by_key.items()},
        "known_findings_reproduced": known, "checker_cmd": info["trace_cmd"],
    }
    C.write_evidence(PID, tier, "model_checking", coverage,
                     ["SQLite 3.40 with harness UDFs executes the rewritten relation (MD5 UDF for hashed units)",
                      "ownership: an orders row belongs to its user_id, a users row to its id; databases honour the uniqueness of users.id",
                      "row privacy (a random id per row) is not compared across executions"], time.time() - t0, viol)
    return code


def replay(path):
    print("re-run `bin/check C05`; the failing case is in the replay file")
    return 2
