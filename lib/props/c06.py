"""C06 — range propagation is sound for every function, aggregate and expression (spec/ExprCases.tla, spec/Trace_Functions.tla)."""
import json
import os
import time

import common as C
import relenc

PID = "C06"
NUM = {"int", "float", "bool"}


def strip(t):
    opt = False
    while isinstance(t, dict) and t.get("k") == "opt":
        opt = True
        t = t["t"]
    return t, opt


def unwrap(y):
    while isinstance(y, dict) and y.get("k") == "some":
        y = y["v"]
    return y


def num(x):
    if isinstance(x, bool):
        return int(x)
    return relenc.float_of(x)


def temporal(s):
    """dates / datetimes / times as numbers (chrono prints years beyond 9999 with a sign)"""
    import re
    m = re.match(r"^([+-]?\d+)-(\d\d)-(\d\d)(?:[ T](\d\d):(\d\d):(\d\d)(\.\d+)?)?$", s)
    if m:
        y, mo, d = int(m.group(1)), int(m.group(2)), int(m.group(3))
        t = 0.0
        if m.group(4):
            t = (int(m.group(4)) * 3600 + int(m.group(5)) * 60 + int(m.group(6)) + float(m.group(7) or 0)) / 86400.0
        return (y * 372 + (mo - 1) * 31 + (d - 1)) + t
    m = re.match(r"^(\d\d):(\d\d):(\d\d)(\.\d+)?$", s)
    if m:
        return int(m.group(1)) * 3600 + int(m.group(2)) * 60 + int(m.group(3)) + float(m.group(4) or 0)
    return None


def encode(o, case):
    rec = {"case": o["case"], "emb": o["emb"], "image": o["image"] if o["image"] in ("ok", "err") else "panic", "tk": 0, "topt": False, "ivs": [], "points": []}
    t, topt = strip(o["image_type"]) if o["image"] == "ok" else ({"k": "none"}, False)
    rec["topt"] = topt or t.get("k") in ("any", "unit")
    tk = t.get("k")
    rk = relenc.Ranker()
    pts = []
    for p in o["points"]:
        q = {"value": p["value"] if p["value"] in ("ok", "err") else "panic", "yk": 0, "y": 0, "lib": bool(p["lib_contains"]), "structural": False}
        if p["value"] == "ok" and o["image"] == "ok":
            y = unwrap(p["y"])
            yk = y.get("k")
            if yk == "none" or yk == "unit":
                q["structural"] = tk in NUM or tk in ("text", "date", "datetime", "time")
                q["yk"] = 0
            elif tk in NUM and yk in NUM:
                q["structural"], q["yk"], q["_y"] = True, 1, num(y["v"])
                rk.add_num(q["_y"])
            elif tk == yk and tk in ("date", "datetime", "time") and temporal(y["v"]) is not None:
                q["structural"], q["yk"], q["_y"] = True, 1, temporal(y["v"])
                rk.add_num(q["_y"])
            elif tk == yk and tk == "text":
                q["structural"], q["yk"], q["_y"] = True, 3, y["v"]
                rk.add_str(y["v"])
        pts.append(q)
    if tk in NUM:
        for lo, hi in t["ivs"]:
            rk.add_num(num(lo))
            rk.add_num(num(hi))
    elif tk in ("date", "datetime", "time"):
        for lo, hi in t["ivs"]:
            rk.add_num(temporal(lo))
            rk.add_num(temporal(hi))
    elif tk == "text":
        for lo, hi in t["ivs"]:
            rk.add_str(lo)
            rk.add_str(hi)
    rk.freeze()
    if tk in NUM:
        rec["tk"] = 1
        rec["ivs"] = [[rk.num(num(lo)), rk.num(num(hi))] for lo, hi in t["ivs"]]
    elif tk in ("date", "datetime", "time"):
        rec["tk"] = 1
        rec["ivs"] = [[rk.num(temporal(lo)), rk.num(temporal(hi))] for lo, hi in t["ivs"]]
    elif tk == "text":
        rec["tk"] = 3
        rec["ivs"] = [[rk.str(lo), rk.str(hi)] for lo, hi in t["ivs"]]
    for q in pts:
        if "_y" in q:
            q["y"] = rk.num(q["_y"]) if q["yk"] == 1 else rk.str(q["_y"])
            del q["_y"]
    rec["points"] = pts
    return rec


def fname(e):
    if "agg" in e:
        return "agg:" + e["agg"]
    if "f" in e:
        inner = [fname(a) for a in e["args"] if "f" in a or "agg" in a]
        return e["f"] + ("(*)" if inner else "")
    return "col"


def col_sig(t):
    """kind and shape of a column type: float:interval, opt_int:values, list(int:single)"""
    if t["k"] == "opt":
        return "opt_" + col_sig(t["t"])
    if t["k"] == "list":
        return "list(" + col_sig(t["t"]) + ")"
    ivs = t.get("ivs")
    if ivs is None:
        return t["k"]
    if all(a == b for a, b in ivs):
        return t["k"] + (":values" if len(ivs) > 1 else ":single")
    return t["k"] + ":interval"


def emb_class(name):
    return "extreme" if name in ("extreme", "p53") else "small"


def run(tier, t0):
    thin = 1
    r = C.tlc("MC_Functions", "MC_Functions.cfg", "c06_cases", workers=4, timeout=3000, constants={"Which": '"image"', "Thin": thin}, heap="8g")
    C.require_model_ok(r, "ExprCases.tla (image cases)")
    cases = r.json_payloads("REPLAY")
    wd = C.workdir("c06")
    cp = os.path.join(wd, "cases.ndjson")
    C.write_ndjson(cp, [{"n": 5}] + cases)
    op = os.path.join(wd, "obs.ndjson")
    C.qv(["dt-image"], stdin_path=cp, stdout_path=op, timeout=6000)
    obs = C.read_ndjson(op)
    recs = [encode(o, cases[o["case"]]) for o in obs]
    tp = os.path.join(wd, "trace.ndjson")
    C.write_ndjson(tp, recs)
    tr, fails, _ = C.validate_trace("Trace_Functions", "Trace_Functions.cfg", tp, "c06_judge", timeout=6000, heap="16g")
    rep = C.Reporter(PID)
    for i, judge in fails:
        o, rec = obs[i - 1], recs[i - 1]
        c = cases[o["case"]]
        bad = [p for p, q in zip(o["points"], rec["points"]) if q["value"] == "ok" and (rec["image"] != "ok" or not (q["lib"] if not q["structural"] else True))][:3]
        key = f"{judge}/{fname(c['expr'])}/{','.join(col_sig(t) for t in c['cols'])}/{emb_class(o['emb'])}"
        rep.fail(key, f"judge {judge} failed for {fname(c['expr'])}",
                 {"engine": "dt-image", "case": {"expr": c["expr"], "cols": c["cols"], "embedding": o["emb"], "image": o["image"], "image_type": o["image_type"],
                                                   "points": [p for p in o["points"] if p["value"] == "ok"][:6]}})
    # binding self-test
    import copy
    st = {}
    for rec in recs:
        k = [j for j, q in enumerate(rec["points"]) if q["structural"] and q["yk"] == 1]
        if rec["image"] == "ok" and rec["tk"] == 1 and k:
            rr = copy.deepcopy(rec)
            rr["points"][k[0]]["y"] = 10 ** 6
            sp = os.path.join(wd, "selftest.ndjson")
            C.write_ndjson(sp, [rr])
            _, f2, _ = C.validate_trace("Trace_Functions", "Trace_Functions.cfg", sp, "c06_selftest")
            st["value_outside_image_flagged"] = any(j == "ImageContains" for _, j in f2)
            break
    if not st or not all(st.values()):
        raise C.ToolError(f"binding self-test failed: {st}")
    code, viol, known = rep.finish()
    fns = sorted({fname(c["expr"]).split("(")[0] for c in cases})
    coverage = {
        "states": r.distinct, "transitions": r.generated, "traces_validated_against_impl": len(recs),
        "samples": [{"expr": cases[o["case"]]["expr"], "cols": cases[o["case"]]["cols"], "embedding": o["emb"], "image": o["image_type"]} for o in obs[:: max(1, len(obs) // 4)]][:4],
        "evaluations": sum(len(o["points"]) for o in obs), "distinct_nontrivial": sum(1 for rec in recs if any(q["value"] == "ok" for q in rec["points"])),
        "rule": "cases of spec/ExprCases.tla enumerated by TLC: every function of the listed signatures x column types from pools of interval shapes (point, interval, full range, three values, upper part; optional variants) x 16 aggregates on lists of 4 size ranges x compositions outer(inner(..), ..); each under 6 order embeddings (default, extremes, 2^53 boundary, around zero, positive, around the quarter periods of sin / cos) and every row of universe points (capped at 48 per case); non-trivial = some row evaluates",
        "exhaustive": True, "functions": fns, "cases": len(cases), "embeddings": 6,
        "image_outcomes": {k: sum(1 for rec in recs if rec["image"] == k) for k in ("ok", "err", "panic")},
        "points_structurally_judged": sum(1 for rec in recs for q in rec["points"] if q["structural"]),
        "points_judged_by_library_membership": sum(1 for rec in recs for q in rec["points"] if q["value"] == "ok" and not q["structural"]),
        "binding_selftest": st, "failures_by_key": {k: v["count"] for k, v in rep.by_key.items()}, "known_findings_reproduced": known, "checker_cmd": tr.cmd,
    }
    C.write_evidence(PID, tier, "model_checking", coverage,
                     ["the value of an expression is the library's own `value` (the property relates it to the propagated range); no independent evaluator",
                      "membership is decided on the decoded interval set for numeric / boolean / text / date results (rank-encoded), by the library's contains modulo its own injection otherwise",
                      "a panic of `value` is not a value; a panic of range propagation while some row evaluates is judged ImageSucceeds"], time.time() - t0, viol)
    return code


def replay(path):
    print("re-run `bin/check C06`; the failing case is in the replay file")
    return 2
