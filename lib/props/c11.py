"""C11 — data-type lattice operations soundly over-approximate set operations.

Part 1 (this file, `intervals`): the Intervals state machine (spec/Intervals.tla) — exhaustive TLC
exploration at small capacity, every edge replayed into the real Intervals<B> under nine order
embeddings (hook: capacity override), the real results judged by TLC (spec/Trace_Intervals.tla);
plus long real histories at the real capacity 128 validated as traces.
Part 2 (`lattice`, lib/props/c11_lattice.py when present): the DataType lattice laws.
"""
import os
import time

import common as C

PID = "C11"


def intervals_part(tier, rep, cov):
    n, cap, depth = (6, 3, 3) if tier == "quick" else (6, 4, 3)   # (7, 4, 4) does not finish in an hour on 12 workers
    consts = {"N": n, "Cap": cap, "Depth": depth}
    r = C.tlc("MC_Intervals", "MC_Intervals.cfg", "c11_iv", workers=8 if tier == "quick" else 12,
              constants=consts, extra=["-coverage", "1"], timeout=3000)
    C.require_model_ok(r, "Intervals.tla")
    cases = r.json_payloads("REPLAY")
    if not cases:
        raise C.ToolError("TLC produced no replayable edges")
    wd = C.workdir("c11_iv")
    cases_p = os.path.join(wd, "edges.ndjson")
    C.write_ndjson(cases_p, cases)
    obs_p = os.path.join(wd, "obs.ndjson")
    C.qv(["iv-replay", "--n", str(n), "--cap", str(cap)], stdin_path=cases_p, stdout_path=obs_p)
    obs = C.read_ndjson(obs_p)
    tr, fails, drifts = C.validate_trace("Trace_Intervals", "Trace_Intervals.cfg", obs_p, "c11_ivt",
                                         constants={"N": n, "Cap": cap})
    for i, judge in fails:
        o = obs[i - 1]
        op = o.get("of", o.get("op"))
        rep.fail(f"intervals/{judge}/{op}", f"judge {judge} failed on real Intervals after {op}",
                 {"engine": "iv-replay", "n": n, "cap": cap, "observation": o})
    # real histories at the real capacity
    hist_p = os.path.join(wd, "hist.ndjson")
    histories, steps = (3, 500) if tier == "quick" else (12, 1500)
    universe = 640
    C.qv(["iv-record", "--seed", str(C.seed()), "--histories", str(histories), "--steps", str(steps),
          "--universe", str(universe)], stdout_path=hist_p)
    hist = C.read_ndjson(hist_p)
    tr2, fails2, drifts2 = C.validate_trace("Trace_Intervals", "Trace_Intervals.cfg", hist_p, "c11_ivh",
                                            constants={"N": universe, "Cap": 128})
    for i, judge in fails2:
        o = hist[i - 1]
        rep.fail(f"intervals/{judge}/{o.get('op')}/history", f"judge {judge} failed in a recorded history of the real Intervals (capacity 128)",
                 {"engine": "iv-record", "seed": C.seed(), "record_index": i, "observation": o})
    collapses = sum(1 for a, b in zip(hist, hist[1:]) if a.get("len", 0) > 60 and b.get("len", 99) <= 1 and b.get("op", "").startswith("union"))
    # binding self-test: corrupt one observed post-state and require a flag
    def corrupt(rows):
        for k, o in enumerate(rows):
            if o.get("op") == "union_interval" and o["post"] and o["post"][0][1] > o["post"][0][0]:
                o["post"][0][1] -= 1
                return k
        raise C.ToolError("self-test: nothing to corrupt")
    st = C.binding_selftest("Trace_Intervals", "Trace_Intervals.cfg", obs_p, "c11_iv", corrupt,
                            constants={"N": n, "Cap": cap})
    if not st["flagged"]:
        raise C.ToolError("binding self-test failed: a corrupted observation was accepted")
    acov = r.action_coverage()
    nontrivial = sum(1 for o in obs if o.get("pre") and o.get("post") is not None and o.get("op") != "panic" and o["pre"] != o["post"])
    cov.update({
        "intervals": {
            "model": {"N": n, "Cap": cap, "Depth": depth, "states_generated": r.generated, "distinct_states": r.distinct,
                      "invariants": ["WellFormed", "NoPointLost", "ExactUnderCapacity", "SubsetSound", "SubsetExact",
                                     "ContainsExact", "ContainsOwn", "LastJudged"],
                      "action_coverage": {k: v for k, v in acov.items() if k.startswith("Do")}},
            "edges_replayed": len(cases),
            "embeddings": sorted({t for o in obs for t in o.get("tys", [])}),
            "real_executions": sum(o.get("count", 0) for o in obs),
            "distinct_observations": len(obs),
            "observations_with_state_change": nontrivial,
            "model_drift": len(drifts),
            "histories": {"records": len(hist), "capacity": 128, "hull_collapses_seen": collapses,
                          "model_drift": len(drifts2), "max_len": max((o.get("len", 0) for o in hist), default=0)},
            "binding_selftest": st,
        }
    })
    samples = [obs[0], obs[len(obs) // 2], hist[min(len(hist) - 1, 50)]]
    return {
        "states": r.distinct, "transitions": r.generated,
        "traces": 2, "evaluations": sum(o.get("count", 0) for o in obs) + len(hist),
        "distinct_nontrivial": nontrivial, "samples": samples,
        "drift": len(drifts) + len(drifts2),
        "checker_cmd": r.cmd,
    }


def run(tier, t0):
    rep = C.Reporter(PID)
    cov = {}
    a = intervals_part(tier, rep, cov)
    parts = [a]
    try:
        import props.c11_lattice as lat
    except ModuleNotFoundError:
        lat = None
    if lat:
        parts.append(lat.lattice_part(tier, rep, cov))
    code, viol, known = rep.finish()
    coverage = {
        "states": sum(p["states"] for p in parts),
        "transitions": sum(p["transitions"] for p in parts),
        "traces_validated_against_impl": sum(p["traces"] for p in parts),
        "samples": [s for p in parts for s in p["samples"]][:8],
        "evaluations": sum(p["evaluations"] for p in parts),
        "distinct_nontrivial": sum(p["distinct_nontrivial"] for p in parts),
        "rule": "TLC enumerates every reachable (state, operation, arguments) edge of the bounded model; each edge is executed on the real code under every order embedding; a case is non-trivial when the operation changes the state (intervals) / the two types differ (lattice)",
        "exhaustive": True,
        "model_drift_total": sum(p["drift"] for p in parts),
        "checker_cmd": parts[0]["checker_cmd"],
        "known_findings_reproduced": known,
    }
    coverage.update(cov)
    C.write_evidence(PID, tier, "model_checking", coverage,
                     ["TLC and the Json/IOUtils community modules", "projection by rank over the embedded universe (harness iv.rs)",
                      "bounded scope: small universe and capacity for the exhaustive part; seeded histories for capacity 128"],
                     time.time() - t0, viol)
    return code


def replay(path):
    import json
    rec = json.load(open(path))
    s = rec["sample"]
    if s.get("engine") == "iv-replay":
        o = s["observation"]
        case = o.get("case") or {k: o[k] for k in ("op", "pre", "lo", "hi", "other", "model_post") if k in o}
        case["post"] = o.get("model_post", [])
        wd = C.workdir("c11_replay")
        cp = os.path.join(wd, "case.ndjson")
        C.write_ndjson(cp, [case])
        op = os.path.join(wd, "obs.ndjson")
        C.qv(["iv-replay", "--n", str(s["n"]), "--cap", str(s["cap"])], stdin_path=cp, stdout_path=op)
        _, fails, _ = C.validate_trace("Trace_Intervals", "Trace_Intervals.cfg", op, "c11_replay_t",
                                       constants={"N": s["n"], "Cap": s["cap"]})
        for l in open(op):
            print(l.strip())
        if fails:
            print(f"VIOLATION property={PID} replay={path}")
            return 1
        return 0
    print("replay: re-run the check with the recorded seed:", s)
    return 2
