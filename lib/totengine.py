"""C18 engine: the cases enumerated by TLC from spec/Compile.tla (query form x expression template x schema classes
x size x privacy parameters, plus constructs outside the supported fragment) are compiled stage by stage by the
real code in a child process with memory and time limits; the recorded stage events are validated by TLC against
the stage machine (spec/Trace_Compile.tla): panic / abort / timeout are not actions of the specification."""
import json
import os
import re
import select
import subprocess
import time

import common as C

I64MIN, I64MAX = -2**63, 2**63 - 1
FMAX = 1.7976931348623157e308

EXPR = {"a+b": "a + b", "a-b": "a - b", "a*b": "a * b", "a/b": "a / b", "b/a": "b / a", "a/a": "a / a", "1/a": "1 / a", "a%2": "a % 2", "-a": "-a",
        "abs(a)": "abs(a)", "abs(b)": "abs(b)", "exp(b)": "exp(b)", "ln(b)": "ln(b)", "log(b)": "log(b)", "sqrt(b)": "sqrt(b)", "pow(b,2)": "pow(b, 2)",
        "a+0.5": "a + 0.5", "a*0.5": "a * 0.5", "cast_float(a)": "CAST(a AS FLOAT)", "cast_int(b)": "CAST(b AS INTEGER)", "cast_text(a)": "CAST(a AS TEXT)",
        "case": "CASE WHEN a > 0 THEN b ELSE a END", "coalesce(b,0)": "COALESCE(b, 0)", "a>b": "a > b", "a in": "a IN (0, 1)",
        "greatest": "GREATEST(a, b)", "least": "LEAST(a, b)", "round(b)": "ROUND(b)", "floor(b)": "FLOOR(b)", "ceil(b)": "CEIL(b)", "sign(a)": "SIGN(a)",
        "sin(b)": "SIN(b)", "cos(b)": "COS(b)", "lower(s)": "LOWER(s)", "upper(s)": "UPPER(s)", "char_length(s)": "CHAR_LENGTH(s)",
        "concat": "CONCAT(s, 'x')", "substr": "SUBSTR(s, 1, 2)", "md5(s)": "MD5(s)", "a*a*a": "a * a * a"}
TEXT_EXPRS = {"cast_text(a)", "lower(s)", "upper(s)", "concat", "substr", "md5(s)"}
BOOL_EXPRS = {"a>b", "a in"}
UNSUPPORTED = {
    "no_from": "SELECT 1", "comma_join": "SELECT t.a FROM t, u", "qualified_wildcard": "SELECT t.* FROM t",
    "group_by_all": "SELECT a, COUNT(*) FROM t GROUP BY ALL", "distinct_on": "SELECT DISTINCT ON (a) a, b FROM t", "top": "SELECT TOP 1 a FROM t",
    "lateral": "SELECT a FROM t LATERAL VIEW explode(b) x AS y", "window": "SELECT SUM(a) OVER (PARTITION BY b) FROM t",
    "nested_setop": "(SELECT a FROM t UNION SELECT a FROM u) UNION SELECT a FROM t", "values_query": "VALUES (1), (2)",
    "semi_join": "SELECT a FROM t LEFT SEMI JOIN u ON t.a = u.a", "var_pop": "SELECT VAR_POP(a) FROM t", "zero_arg_abs": "SELECT abs() FROM t",
    "dup_alias": "SELECT a AS x, b AS x FROM t", "ambiguous_column": "SELECT a FROM t JOIN u ON t.a = u.a", "unknown_table": "SELECT a FROM nope",
    "unknown_column": "SELECT nope FROM t", "unknown_function": "SELECT nope(a) FROM t", "cte_shadow": "WITH t AS (SELECT a FROM t) SELECT a FROM t",
    "natural_three": "SELECT * FROM t NATURAL JOIN u NATURAL JOIN u AS w"}
A_SCHEMA = {"small": {"k": "int", "ivs": [[0, 2]]}, "zero_inside": {"k": "int", "ivs": [[-2, 2]]}, "zero_width": {"k": "int", "ivs": [[0, 0]]},
            "big": {"k": "int", "ivs": [[200, 10**12]]}, "full": {"k": "int", "ivs": [[I64MIN, I64MAX]]},
            "values": {"k": "int", "ivs": [[0, 0], [1, 1], [2, 2]]}, "many_intervals": {"k": "int", "ivs": [[3 * i, 3 * i] for i in range(130)]}}
B_SCHEMA = {"float_unit": {"k": "float", "ivs": [[-1.0, 1.0]]}, "float_pos": {"k": "float", "ivs": [[0.5, 2.0]]}, "float_full": {"k": "float", "ivs": [[-FMAX, FMAX]]},
            "float_zero": {"k": "float", "ivs": [[0.0, 0.0]]}, "opt_int": {"k": "opt", "t": {"k": "int", "ivs": [[0, 2]]}},
            "float_many": {"k": "float", "ivs": [[float(3 * i), 3 * i + 0.5] for i in range(130)]}}
PARAMS = {"default": {}, "eps0": {"epsilon": 0.0}, "delta0": {"delta": 0.0}, "tau0": {"tau_share": 0.0}, "tau1": {"tau_share": 1.0}, "groups0": {"max_groups": 0}}


def sql_of(c):
    if c["kind"] == "unsupported":
        return UNSUPPORTED[c["construct"]]
    e, f = EXPR[c["expr"]], c["form"]
    if c["expr"] in TEXT_EXPRS:
        f = "select"
    if f == "select":
        return f"SELECT {e} AS x FROM t"
    if f == "sum":
        return f"SELECT SUM({e}) AS x FROM t"
    if f == "group_avg":
        return f"SELECT a AS g, AVG({e}) AS x FROM t GROUP BY a"
    return f"SELECT a AS y FROM t WHERE {e}" if c["expr"] in BOOL_EXPRS else f"SELECT a AS y FROM t WHERE ({e}) > 0"


def tables_of(c):
    a = A_SCHEMA[c.get("a", "small")]
    b = B_SCHEMA[c.get("b", "opt_int")]
    size = {"size": 3} if c.get("size", "exact") == "exact" else {"size_ivs": [[0, I64MAX]]}
    t = dict({"name": "t", "rows": [], "cols": [{"n": "a", "t": a, "c": None}, {"n": "b", "t": b, "c": None},
                                                 {"n": "s", "t": {"k": "text", "ivs": [["\u0000", "\U0010ffff"]]}, "c": None}]}, **size)
    u = dict({"name": "u", "rows": [], "cols": [{"n": "a", "t": {"k": "int", "ivs": [[0, 2]]}, "c": "unique"},
                                                 {"n": "c", "t": {"k": "opt", "t": {"k": "int", "ivs": [[0, 2]]}}, "c": None}]}, **size)
    return [t, u]


def run_isolated(cases, per_case_timeout=20, mem_kb=6 * 1024 * 1024):
    """Feeds the cases to `qv tot-run` children; returns the list of events, with synthetic
    outcome `abort` / `timeout` events for cases whose process died or stopped answering."""
    events, i, restarts = [], 0, 0
    while i < len(cases):
        proc = subprocess.Popen(["bash", "-c", f"ulimit -v {mem_kb}; exec {C.QV} tot-run"], stdin=subprocess.PIPE, stdout=subprocess.PIPE,
                                stderr=subprocess.DEVNULL, text=True, bufsize=1)
        try:
            # feed in the background through a thread-less approach: write everything (pipes are large enough in chunks)
            import threading
            batch = cases[i:]

            def feed():
                try:
                    for c in batch:
                        proc.stdin.write(json.dumps(c) + "\n")
                    proc.stdin.close()
                except Exception:
                    pass
            th = threading.Thread(target=feed, daemon=True)
            th.start()
            current, last_stage, t_last = None, "begin", time.time()
            while True:
                r, _, _ = select.select([proc.stdout], [], [], 1.0)
                if r:
                    line = proc.stdout.readline()
                    if not line:
                        break
                    ev = json.loads(line)
                    events.append(ev)
                    t_last = time.time()
                    if ev["stage"] == "begin":
                        current = ev["case"]
                        last_stage = "begin"
                    elif ev["stage"] == "end":
                        i += 1
                        current = None
                    else:
                        last_stage = ev["stage"]
                elif time.time() - t_last > per_case_timeout:
                    proc.kill()
                    events.append({"case": current if current is not None else cases[i]["id"], "stage": "after:" + last_stage, "outcome": "timeout", "msg": f"no answer for {per_case_timeout}s"})
                    if current is None:
                        events.insert(-1, {"case": cases[i]["id"], "stage": "begin", "outcome": "ok", "msg": ""})
                    events.append({"case": cases[i]["id"], "stage": "end", "outcome": "ok", "msg": ""})
                    i += 1
                    current = "killed"
                    break
            proc.wait()
            if current is not None and current != "killed":
                # the process died in the middle of a case
                events.append({"case": current, "stage": "after:" + last_stage, "outcome": "abort", "msg": f"process exited with {proc.returncode}"})
                events.append({"case": current, "stage": "end", "outcome": "ok", "msg": ""})
                i += 1
            elif current is None and i < len(cases) and proc.returncode != 0:
                events.append({"case": cases[i]["id"], "stage": "begin", "outcome": "ok", "msg": ""})
                events.append({"case": cases[i]["id"], "stage": "after:begin", "outcome": "abort", "msg": f"process exited with {proc.returncode}"})
                events.append({"case": cases[i]["id"], "stage": "end", "outcome": "ok", "msg": ""})
                i += 1
        finally:
            if proc.poll() is None:
                proc.kill()
        restarts += 1
        if restarts > 2000:
            raise C.ToolError("too many child restarts")
    return events, restarts - 1


def norm_msg(m):
    # the visitor's panic prints the whole acceptor: keep its type only
    m = re.sub(r"(Found a `\w+` state for Acceptor: )(\w+).*?( @[\w/.]+)?$", r"\1\2 ..\3", m, flags=re.S)
    m = re.sub(r'\\?"[^"\\]*\\?"', "<s>", m)
    m = re.sub(r"\b(map|reduce|join|set|field|table|relation|values|left_)_[a-z0-9_]{4}\b", "<name>", m)
    m = re.sub(r"-?\d[\d.e+-]*", "N", m)
    return m[:140]
