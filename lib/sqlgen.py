"""Printing of the abstract query terms of spec/QueryShapes.tla as SQL text, and of the abstract
databases as table descriptions for the harness (`qv sql-run`)."""

NULL = -9999
# text codes of the spec -> strings; byte order of the strings = order of the codes
TEXT = {100: "it's", 101: 'q"uote', 102: "x y", 103: "é;--"}


def lit(v):
    if v == NULL:
        return "NULL"
    if v >= 100:
        return "'" + TEXT[v].replace("'", "''") + "'"
    return str(v)


def ident(n):
    return n


def expr(e):
    k = e["k"]
    if k == "col":
        return (ident(e["q"]) + "." if e["q"] else "") + ident(e["n"])
    if k == "lit":
        return lit(e["v"])
    if k == "bin":
        op = e["op"].upper() if e["op"] in ("and", "or") else e["op"]
        return "(%s %s %s)" % (expr(e["l"]), op, expr(e["r"]))
    if k == "not":
        return "(NOT %s)" % expr(e["e"])
    if k == "isnull":
        return "(%s IS NULL)" % expr(e["e"])
    if k == "case":
        return "(CASE WHEN %s THEN %s ELSE %s END)" % (expr(e["c"]), expr(e["t"]), expr(e["f"]))
    if k == "coalesce":
        return "COALESCE(%s, %s)" % (expr(e["l"]), expr(e["r"]))
    if k == "in":
        return "(%s IN (%s))" % (expr(e["e"]), ", ".join(lit(v) for v in sorted(e["vs"])))
    if k == "countstar":
        return "COUNT(*)"
    if k == "agg":
        return "%s(%s%s)" % (e["fn"].upper(), "DISTINCT " if e["distinct"] else "", expr(e["e"]))
    raise ValueError("expr kind " + k)


def from_(f):
    k = f["k"]
    if k == "tab":
        return ident(f["t"]) + (" AS " + ident(f["as"]) if f["as"] else "")
    if k == "sub":
        return "(" + query(f["q"]) + ") AS " + ident(f["as"])
    if k == "join":
        kind = {"inner": "INNER", "left": "LEFT", "right": "RIGHT", "full": "FULL", "cross": "CROSS"}[f["kind"]]
        l, r = from_(f["l"]), from_(f["r"])
        if f["kind"] == "cross":
            return "%s CROSS JOIN %s" % (l, r)
        if f["natural"]:
            return "%s NATURAL %s JOIN %s" % (l, kind, r)
        if f["using"]:
            return "%s %s JOIN %s USING (%s)" % (l, kind, r, ", ".join(f["using"]))
        return "%s %s JOIN %s ON %s" % (l, kind, r, expr(f["on"]))
    raise ValueError("from kind " + k)


def query(q):
    k = q["k"]
    if k == "select":
        s = "SELECT " + ("DISTINCT " if q["distinct"] else "")
        s += ", ".join("%s AS %s" % (expr(it["e"]), ident(it["as"])) for it in q["items"])
        s += " FROM " + from_(q["from"])
        if q["where"]["k"] != "none":
            s += " WHERE " + expr(q["where"])
        if q["group"]:
            s += " GROUP BY " + ", ".join(expr(g) for g in q["group"])
        if q["having"]["k"] != "none":
            s += " HAVING " + expr(q["having"])
        return s
    if k == "order":
        s = query(q["q"])
        if q["keys"]:
            s += " ORDER BY " + ", ".join("%s %s" % (expr(x["e"]), "ASC" if x["asc"] else "DESC") for x in q["keys"])
        if q["limit"] >= 0:
            s += " LIMIT %d" % q["limit"]
        if q["offset"] >= 0:
            s += " OFFSET %d" % q["offset"]
        return s
    if k == "setop":
        return "%s %s%s %s" % (query(q["l"]), q["op"].upper(), " ALL" if q["all"] else "", query(q["r"]))
    if k == "with":
        return "WITH %s AS (%s) %s" % (ident(q["name"]), query(q["def"]), query(q["body"]))
    raise ValueError("query kind " + k)


def root_order(q):
    """ORDER BY keys that constrain the order of the final result: [(output column index, asc)]"""
    if q["k"] != "order" or not q["keys"]:
        return []
    inner = q["q"]
    names = [it["as"] for it in inner["items"]] if inner["k"] == "select" else []
    return [[names.index(x["e"]["n"]), x["asc"]] for x in q["keys"] if x["e"]["n"] in names]


def cell(v):
    if v == NULL:
        return None
    if isinstance(v, dict):   # avg [num, den]
        return None if v["num"] == NULL else {"r": v["num"] / v["den"]}
    if v >= 100:
        return TEXT[v]
    return v


INT02 = {"k": "int", "ivs": [[0, 2]]}


def tables(db, variant=0, text_vals=(100, 101, 102)):
    """The two base tables of QueryShapes with their declared schema and the rows of `db`.
    variant 0: declared size = exact number of rows; 1: declared size = [0, rows+1] and t.a is a FOREIGN KEY."""
    texts = sorted(TEXT[c] for c in text_vals)
    tcols = [
        # variant 1 declares t.a a FOREIGN KEY: a constraint that says nothing about uniqueness (the rows repeat values of a)
        {"n": "a", "t": INT02, "c": "fk" if variant == 1 else None},
        {"n": "b", "t": {"k": "opt", "t": INT02}, "c": None},
        {"n": "s", "t": {"k": "text", "ivs": [[x, x] for x in texts]}, "c": None},
    ]
    ucols = [
        {"n": "a", "t": INT02, "c": "unique"},
        {"n": "c", "t": {"k": "opt", "t": INT02}, "c": None},
    ]
    out = []
    for name, cols in (("t", tcols), ("u", ucols)):
        rows = [[cell(v) for v in r] for r in db[name]["rows"]]
        t = {"name": name, "cols": cols, "rows": rows}
        if variant == 0:
            t["size"] = len(rows)
        else:
            t["size_ivs"] = [[0, len(rows) + 1]]
        out.append(t)
    return out
