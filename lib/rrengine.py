"""Rewriting-search engine shared by C13 and C02: TLC model-checks spec/RewritingRules.tla on every relation
tree up to a size x synthetic data x strategy x entry point; every finished case is replayed into the real
set / eliminate / select / score / rewrite phases and the real entry points (harness `rr-replay`); TLC judges
the real observations with spec/Trace_RewritingRules.tla."""
import hashlib
import json
import os
import time

import common as C

FILES = ["spec/RewritingRules.tla", "spec/MC_RewritingRules.tla", "spec/Trace_RewritingRules.tla", "lib/rrengine.py", "lib/common.py"]
C13_JUDGES = {"ResultOrUnreachable", "SelectComplete", "WellTyped", "UsesAttachedRules", "ElimOnlyRemoves", "ElimComplete",
              "OutcomeIff", "AppliedIsDerivation", "AppliedIsBest"}
C02_JUDGES = {"RuleSound", "ProtectedNeverPub", "ExposureSound", "RootNotExposed", "ResultNotExposed"}


def cache_key(tier):
    h = hashlib.sha1()
    for f in FILES:
        h.update(open(os.path.join(C.ROOT, f), "rb").read())
    h.update(open(C.QV, "rb").read())
    h.update(f"{tier}/{C.seed()}".encode())
    return h.hexdigest()[:16]


def encode(o):
    derivs = []
    for d in o.get("derivs", []):
        derivs.append({"d": d["d"], "score": d["score"], "accepted": d["accepted"], "exposure": d.get("exposure", "none")})
    chosen = []
    if o.get("outcome") == "ok":
        for i, d in enumerate(o.get("derivs", [])):
            if d.get("accepted") and d.get("sql") == o.get("sql") and d.get("event") == o.get("event"):
                chosen.append(i + 1)
    m = o["model"]
    mc = 0
    if m["outcome"]["k"] == "ok":
        # index, among all real derivations, of the model's chosen one
        for i, d in enumerate(o.get("derivs", [])):
            if d["d"] == m["chosen"]:
                mc = i + 1
    return {"tree": o.get("real_tree", o["tree"]), "sd": o["sd"], "strategy": o["strategy"], "entry": o["entry"],
            "set_rules": o.get("set_rules", []), "kept_rules": o.get("kept_rules", []), "derivs": derivs,
            "outcome": o.get("outcome", "panic") if "phases_panic" not in o and "harness_panic" not in o else "panic",
            "chosen": chosen, "model_chosen": mc, "model_outcome": m["outcome"]["k"],
            # exposure measured on the relation the entry point itself returned (whether or not it was matched to a derivation)
            "result_exposure": o.get("result_exposure", "none")}


def run(tier):
    key = cache_key(tier)
    cdir = os.path.join(C.WORK, "cache")
    os.makedirs(cdir, exist_ok=True)
    cpath = os.path.join(cdir, f"rr_{key}.json")
    if os.path.exists(cpath):
        C.log(f"[rr] using cached engine run {key}")
        res = json.load(open(cpath))
        res["from_cache"] = True
        return res
    t0 = time.time()
    maxnodes = 5 if tier == "quick" else 6
    r = C.tlc("MC_RewritingRules", "MC_RewritingRules.cfg", "rr_mc", workers=8 if tier == "quick" else 14, timeout=6000,
              constants={"MaxNodes": maxnodes}, extra=["-coverage", "1"], heap="16g")
    C.require_model_ok(r, "RewritingRules.tla")
    cases = r.json_payloads("REPLAY")
    wd = C.workdir("rr")
    cp = os.path.join(wd, "cases.ndjson")
    C.write_ndjson(cp, cases)
    op = os.path.join(wd, "obs.ndjson")
    C.qv(["rr-replay"], stdin_path=cp, stdout_path=op, timeout=6000)
    obs = C.read_ndjson(op)
    recs = [encode(o) for o in obs]
    tp = os.path.join(wd, "trace.ndjson")
    C.write_ndjson(tp, recs)
    tr, fails, drifts = C.validate_trace("Trace_RewritingRules", "Trace_RewritingRules.cfg", tp, "rr_judge", timeout=6000, heap="16g")
    failures = []
    for i, judge in fails:
        o, rec = obs[i - 1], recs[i - 1]
        kinds = [n["kind"] for n in rec["tree"]]
        if judge == "RuleSound":
            key = "RuleSound/" + "+".join(sorted({f"{n['kind']}:{','.join(x['ins'])}->{x['out']}" for n, rs in zip(rec["tree"], rec["set_rules"]) for x in rs
                                                    if not model_rule(n["kind"], x, rec["sd"], rec["strategy"])}))
        else:
            key = f"{judge}/{kinds[-1]}/{rec['entry']}{'+sd' if rec['sd'] else ''}/{rec['strategy']}"
        failures.append({"judge": judge, "key": key, "sample": {"tree": rec["tree"], "sd": rec["sd"], "strategy": rec["strategy"], "entry": rec["entry"],
                                                                 "outcome": rec["outcome"], "chosen": rec["chosen"], "error": o.get("error"),
                                                                 "derivations": [{"d": compact(d["d"]), "score": d["score"], "accepted": d["accepted"], "exposure": d["exposure"]} for d in rec["derivs"]][:12]}})
    # binding self-test: corrupt the recorded choice / one recorded exposure
    import copy
    st = {}
    for rec in recs:
        acc = [i for i, d in enumerate(rec["derivs"]) if d["accepted"]]
        if rec["outcome"] == "ok" and len({rec["derivs"][i]["score"] for i in acc}) > 1:
            rr = copy.deepcopy(rec)
            worst = min(acc, key=lambda i: rec["derivs"][i]["score"])
            rr["chosen"] = [worst + 1]
            p = os.path.join(wd, "selftest.ndjson")
            C.write_ndjson(p, [rr])
            _, f, _ = C.validate_trace("Trace_RewritingRules", "Trace_RewritingRules.cfg", p, "rr_selftest")
            st["worse_choice_flagged"] = any(j == "AppliedIsBest" for _, j in f)
            break
    for rec in recs:
        idx = [i for i, d in enumerate(rec["derivs"]) if d["exposure"] == "Noised"]
        if idx:
            rr = copy.deepcopy(rec)
            rr["derivs"][idx[0]]["exposure"] = "Tracked"
            p = os.path.join(wd, "selftest2.ndjson")
            C.write_ndjson(p, [rr])
            _, f, _ = C.validate_trace("Trace_RewritingRules", "Trace_RewritingRules.cfg", p, "rr_selftest2")
            st["tracked_under_dp_label_flagged"] = any(j == "ExposureSound" for _, j in f)
            break
    if not st or not all(st.values()):
        raise C.ToolError(f"binding self-test failed: {st}")
    outcomes = {}
    for rec in recs:
        outcomes[rec["outcome"]] = outcomes.get(rec["outcome"], 0) + 1
    acov = {k: v for k, v in r.action_coverage().items() if k in ("SetRules", "Eliminate", "Select", "FilterRoot", "ArgMax")}
    res = {
        "model": {"MaxNodes": maxnodes, "states_generated": r.generated, "distinct_states": r.distinct, "action_coverage": acov,
                  "invariants": ["SelectIsConsistent", "EveryDerivationWellTyped", "UnreachableIffEmpty", "ChosenIsArgMax", "ElimComplete",
                                 "DerivationSound", "ProtectedNeverPub", "RootNeverExposed", "ASSUME RuleTableSound"], "cmd": r.cmd},
        "cases": len(cases), "outcomes": outcomes,
        "derivations_total": sum(len(rec["derivs"]) for rec in recs),
        "derivations_rewritten": sum(1 for rec in recs for d in rec["derivs"] if d["exposure"] != "none"),
        "cases_with_choice": sum(1 for rec in recs if rec["outcome"] == "ok" and len([d for d in rec["derivs"] if d["accepted"]]) > 1),
        "chosen_identified": sum(1 for rec in recs if rec["outcome"] == "ok" and rec["chosen"]),
        "exposures": {e: sum(1 for rec in recs for d in rec["derivs"] if d["exposure"] == e) for e in ("Clean", "Synth", "Noised", "Tracked", "Raw")},
        "drift": {}, "failures": failures, "binding_selftest": st, "trace_cmd": tr.cmd,
        "samples": [{"tree": [n["kind"] for n in rec["tree"]], "sd": rec["sd"], "strategy": rec["strategy"], "entry": rec["entry"],
                     "outcome": rec["outcome"], "derivations": len(rec["derivs"]), "chosen": rec["chosen"]} for rec in recs[:: max(1, len(recs) // 5)]][:5],
        "wall_s": round(time.time() - t0, 1), "from_cache": False,
    }
    for i, name in drifts:
        res["drift"][name] = res["drift"].get(name, 0) + 1
    with open(cpath, "w") as f:
        json.dump(res, f)
    return res


MODEL_TABLE = None


def model_rule(kind, rule, sd, strategy):
    """Is the rule one of the model's table (used only to name the offending rules in a key)?"""
    base = {
        "TableProt": [([], "Priv"), ([], "PUP")], "TablePub": [([], "Pub")], "Values": [([], "Pub")],
        "Map": [(["Pub"], "Pub"), (["Pubd"], "Pubd"), (["DP"], "Pubd"), (["PUP"], "PUP")],
        "ReduceDp": [(["Pub"], "Pub"), (["Pubd"], "Pubd"), (["PUP"], "DP")],
        "ReduceNoDp": [(["Pub"], "Pub"), (["Pubd"], "Pubd")],
        "Join": [(["Pub", "Pub"], "Pub"), (["Pubd", "Pubd"], "Pubd"), (["Pubd", "PUP"], "PUP"), (["DP", "PUP"], "PUP"), (["PUP", "Pubd"], "PUP"),
                 (["Pub", "PUP"], "PUP"), (["PUP", "Pub"], "PUP"), (["PUP", "DP"], "PUP")],
        "Set": [(["Pub", "Pub"], "Pub"), (["Pubd", "Pubd"], "Pubd"), (["PUP", "PUP"], "PUP")],
    }[kind]
    extra = []
    n = {"TableProt": 0, "TablePub": 0, "Values": 0, "Map": 1, "ReduceDp": 1, "ReduceNoDp": 1, "Join": 2, "Set": 2}[kind]
    if sd:
        extra.append((["SD"] * n, "SD"))
    if strategy == "Hard" and kind in ("ReduceDp", "ReduceNoDp"):
        extra.append((["PUP"], "PUP"))
    if strategy == "Hard" and kind == "Join":
        extra.append((["PUP", "PUP"], "PUP"))
    return (rule["ins"], rule["out"]) in [(a, b) for a, b in base + extra]


def compact(d):
    return {"r": ",".join(d["rule"]["ins"]) + "->" + d["rule"]["out"], "k": [compact(k) for k in d["kids"]]}


def report(pid, judges, tier, t0, assumptions):
    res = run(tier)
    rep = C.Reporter(pid)
    for f in res["failures"]:
        if f["judge"] in judges:
            rep.fail(f["key"], f"judge {f['judge']} failed on the real rewriting search", {"engine": "rr-replay", "case": f["sample"]})
    code, viol, known = rep.finish()
    coverage = {
        "states": res["model"]["distinct_states"], "transitions": res["model"]["states_generated"],
        "traces_validated_against_impl": res["cases"], "samples": res["samples"],
        "evaluations": res["cases"], "distinct_nontrivial": res["cases_with_choice"],
        "rule": "every relation tree with at most MaxNodes nodes (8 node kinds) x synthetic data on/off x strategy x entry point, enumerated by TLC; non-trivial = at least two acceptable derivations compete at the root",
        "exhaustive": True,
        "engine": {k: res[k] for k in ("model", "cases", "outcomes", "derivations_total", "derivations_rewritten", "cases_with_choice",
                                        "chosen_identified", "exposures", "drift", "binding_selftest", "from_cache")},
        "judges": sorted(judges), "failures_by_key": {k: v["count"] for k, v in rep.by_key.items()},
        "known_findings_reproduced": known, "checker_cmd": res["model"]["cmd"],
    }
    C.write_evidence(pid, tier, "model_checking", coverage, assumptions, time.time() - t0, viol)
    return code
