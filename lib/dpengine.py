"""Differential-privacy engine shared by C01 / C03 / C04 / C09: TLC explores spec/DPPipeline.tla (configuration of
the aggregation x tiny database, with the model's invariants), every finished (configuration, database) state is
compiled by the real differential-privacy rewriting and executed on SQLite on D and on every D minus one unit, with
controlled random sources; the numeric facts extracted from the real relation, the compiler's events and the rows
are rank-encoded and judged by TLC with spec/Trace_DP.tla."""
import hashlib
import json
import math
import os
import time

import common as C
import relenc

FILES = ["spec/DPPipeline.tla", "spec/MC_DPPipeline.tla", "spec/MC_DPMulti.tla", "spec/Trace_DP.tla", "lib/dpengine.py", "lib/common.py", "lib/relenc.py"]
NULL = -9999
MAXROWS = 4
AGG_SQL = {"count": "COUNT(v)", "sum": "SUM(v)", "avg": "AVG(v)", "var": "VARIANCE(v)", "std": "STDDEV(v)",
           "count_distinct": "COUNT(DISTINCT v)", "sum_distinct": "SUM(DISTINCT v)"}


def cache_key(tier):
    h = hashlib.sha1()
    for f in FILES:
        h.update(open(os.path.join(C.ROOT, f), "rb").read())
    h.update(open(C.QV, "rb").read())
    h.update(f"{tier}/{C.seed()}".encode())
    return h.hexdigest()[:16]


def gnoise(u):
    """Box-Muller value when every uniform draw returns u"""
    return math.sqrt(-2.0 * math.log(u)) * math.cos(2.0 * math.pi * u)


def norm_ppf(p):
    """inverse of the standard normal cdf (Acklam's rational approximation, refined by Newton steps)"""
    if p <= 0.0:
        return -math.inf
    if p >= 1.0:
        return math.inf
    a = [-3.969683028665376e+01, 2.209460984245205e+02, -2.759285104469687e+02, 1.383577518672690e+02, -3.066479806614716e+01, 2.506628277459239e+00]
    b = [-5.447609879822406e+01, 1.615858368580409e+02, -1.556989798598866e+02, 6.680131188771972e+01, -1.328068155288572e+01]
    c = [-7.784894002430293e-03, -3.223964580411365e-01, -2.400758277161838e+00, -2.549732539343734e+00, 4.374664141464968e+00, 2.938163982698783e+00]
    d = [7.784695709041462e-03, 3.224671290700398e-01, 2.445134137142996e+00, 3.754408661907416e+00]
    pl = 0.02425
    if p < pl:
        q = math.sqrt(-2 * math.log(p))
        x = (((((c[0] * q + c[1]) * q + c[2]) * q + c[3]) * q + c[4]) * q + c[5]) / ((((d[0] * q + d[1]) * q + d[2]) * q + d[3]) * q + 1)
    elif p > 1 - pl:
        q = math.sqrt(-2 * math.log(1 - p))
        x = -(((((c[0] * q + c[1]) * q + c[2]) * q + c[3]) * q + c[4]) * q + c[5]) / ((((d[0] * q + d[1]) * q + d[2]) * q + d[3]) * q + 1)
    else:
        q = p - 0.5
        r = q * q
        x = (((((a[0] * r + a[1]) * r + a[2]) * r + a[3]) * r + a[4]) * r + a[5]) * q / (((((b[0] * r + b[1]) * r + b[2]) * r + b[3]) * r + b[4]) * r + 1)
    for _ in range(3):
        e = 0.5 * math.erfc(-x / math.sqrt(2)) - p
        x -= e * math.sqrt(2 * math.pi) * math.exp(x * x / 2)
    return x


def nm(eps, delta):
    return math.sqrt(2.0 * math.log(1.25 / delta)) / eps


def min_epsilon(ratios, delta):
    """The least total epsilon with which Gaussian mechanisms of noise multipliers `ratios` (sigma / sensitivity) compose
    within a total `delta` (classical calibration eps_i = sqrt(2 ln(1.25/delta_i)) / ratio_i, basic composition), over every
    way of sharing delta among them: the statement is existential, the compiler need not share delta evenly."""
    if delta <= 0:
        return math.inf
    n = len(ratios)

    def eps(d, r):
        return math.sqrt(2.0 * math.log(1.25 / d)) / r
    if n == 1:
        return eps(delta, ratios[0])

    def d_of(lam, r):
        # solve 1 / (r d sqrt(2 ln(1.25/d))) = lam for d in (0, delta): the left side decreases in d there
        lo, hi = 1e-200, min(delta, 0.5)
        for _ in range(200):
            mid = math.exp(0.5 * (math.log(lo) + math.log(hi)))
            if 1.0 / (r * mid * math.sqrt(2.0 * math.log(1.25 / mid))) > lam:
                lo = mid
            else:
                hi = mid
        return hi
    lo, hi = 1e-12, 1e250
    for _ in range(400):
        lam = math.exp(0.5 * (math.log(lo) + math.log(hi)))
        if sum(d_of(lam, r) for r in ratios) > delta:
            lo = lam
        else:
            hi = lam
    ds = [d_of(hi, r) for r in ratios]
    even = sum(eps(delta / n, r) for r in ratios)
    return min(even, sum(eps(d, r) for d, r in zip(ds, ratios)))


def cell(v):
    return None if v == NULL else v


def case_of(p, i):
    cfg, db = p["cfg"], p["db"]
    ktype = {"k": "int", "ivs": [[0, 0], [1, 1]]} if cfg["keys"] == "public" else {"k": "int", "ivs": [[0, 9]]}
    tables = [{"name": "orders", "size_ivs": [[0, MAXROWS]], "rows": [], "cols": [
        # the privacy-unit column sometimes carries a (non-unique) foreign-key constraint: only UNIQUE / PRIMARY KEY make a unit single-row
        {"n": "user_id", "t": {"k": "int", "ivs": [[0, 2]]}, "c": "fk" if i % 4 == 1 else None},
        {"n": "k", "t": ktype, "c": None},
        {"n": "v", "t": {"k": "opt", "t": {"k": "int", "ivs": [[-2 if cfg.get("signed") else 0, 2]]}}, "c": None}]}]
    sql = "SELECT " + ("k, " if cfg["grouped"] else "") + AGG_SQL[cfg["agg"]] + " AS x FROM orders" + \
          (" WHERE v > 0" if cfg["where"] else "") + (" GROUP BY k" if cfg["grouped"] else "")
    rows = [[r["u"], r["k"], cell(r["v"])] for r in db]
    units = sorted({r[0] for r in rows})
    dbs = [{"orders": rows}] + [{"orders": [r for r in rows if r[0] != u]} for u in units]
    private = cfg["grouped"] and cfg["keys"] == "private"
    if private:
        # two budgets: a huge epsilon (threshold just above one unit, negligible noise) and a moderate one
        eps = 200.0 if i % 2 == 0 else 4.0
        params = {"epsilon": eps, "delta": 0.01}
        randoms = [{"noise": 1.0, "cap_seed": C.seed() + i}, {"noise": 0.1, "cap_seed": C.seed() + i}]
    else:
        params = {"epsilon": 1.0, "delta": 1e-3}
        randoms = [{"noise": 1.0, "cap_seed": C.seed() + i}, {"noise": 0.1, "cap_seed": C.seed() + i}]
    # the share of the budget reserved for the release of the keys varies (0.5 is the default and a fixed point of 1 - s)
    params.update({"tau_share": [0.5, 0.8, 0.25][(i // 2) % 3], "max_mult": float(cfg["mult"]), "max_mult_share": 1.0, "max_groups": cfg["cu"]})
    return {"id": i, "mode": "dp", "hash_pu": bool(i % 3), "pu": [["orders", [], "user_id"]], "sql": sql, "params": params,
            "tables": tables, "dbs": dbs, "randoms": randoms, "cfg": cfg, "units": units, "model": p}


def explore(tier):
    num, rows = (1000, MAXROWS) if tier == "quick" else (6000, MAXROWS)
    r = C.tlc("MC_DPPipeline", "MC_DPPipeline.cfg", "dp_sim", workers=1, timeout=3000, constants={"MaxRows": rows},
              extra=["-simulate", f"num={num}", "-depth", "12", "-seed", str(C.seed() + 7)])
    if r.rc != 0 or "Error:" in r.out:
        C.require_model_ok(r, "DPPipeline.tla (simulation)")
    m = [l for l in r.out.splitlines() if l.startswith("The number of states generated")]
    states = int(m[0].split(":")[1]) if m else 0
    seen, cases = set(), []
    for p in r.json_payloads("REPLAY"):
        k = json.dumps([p["cfg"], p["db"]], sort_keys=True)
        if k in seen:
            continue
        seen.add(k)
        cases.append(case_of(p, len(cases)))
    return cases, {"mode": "simulate", "num": num, "states_generated": states, "distinct_cases": len(cases), "cmd": r.cmd,
                   "model_invariants": ["Sensitivity", "Locality", "ReleasedOverTau", "SingletonNotReleased", "CappedContribution"]}


MULTI_SQL = {"count_v": "COUNT(v) AS c_v", "sum_v": "SUM(v) AS s_v", "count_k": "COUNT(k) AS c_k", "count_distinct_v": "COUNT(DISTINCT v) AS cd_v",
             "sum_distinct_v": "SUM(DISTINCT v) AS sd_v", "count_distinct_k": "COUNT(DISTINCT k) AS cd_k"}


def multi_cases(first_id):
    """spec/MC_DPMulti.tla: SELECT lists of two or three aggregates (plain and DISTINCT, over v and over the grouping key k),
    ungrouped / grouped by public / private keys.  Compiled only for the accounting judges of C03 (one small database)."""
    r = C.tlc("MC_DPMulti", "MC_DPMulti.cfg", "dp_multi", workers=2, timeout=600)
    C.require_model_ok(r, "MC_DPMulti.tla")
    rows = [[0, 0, 1], [1, 0, 2], [1, 1, 1], [2, 1, None]]
    out = []
    for p in r.json_payloads("REPLAY"):
        i = first_id + len(out)
        grouped = p["shape"] != "ungrouped"
        cfg = {"grouped": grouped, "keys": p["shape"] if grouped else "public", "agg": "count", "where": False, "cu": 2, "mult": 2, "signed": False,
               "multi": sorted(p["aggs"]), "splits": p["splits"]}
        ktype = {"k": "int", "ivs": [[0, 0], [1, 1]]} if cfg["keys"] == "public" else {"k": "int", "ivs": [[0, 9]]}
        tables = [{"name": "orders", "size_ivs": [[0, MAXROWS]], "rows": [], "cols": [
            {"n": "user_id", "t": {"k": "int", "ivs": [[0, 2]]}, "c": None}, {"n": "k", "t": ktype, "c": None},
            {"n": "v", "t": {"k": "opt", "t": {"k": "int", "ivs": [[0, 2]]}}, "c": None}]}]
        sql = "SELECT " + ("k, " if grouped else "") + ", ".join(MULTI_SQL[a] for a in cfg["multi"]) + " FROM orders" + (" GROUP BY k" if grouped else "")
        params = {"epsilon": [1.0, 4.0][i % 2], "delta": 1e-3, "tau_share": [0.5, 0.8, 0.25][i % 3], "max_mult": 2.0, "max_mult_share": 1.0, "max_groups": 2}
        out.append({"id": i, "mode": "dp", "hash_pu": bool(i % 3), "pu": [["orders", [], "user_id"]], "sql": sql, "params": params, "tables": tables,
                    "dbs": [{"orders": rows}], "randoms": [{"noise": 1.0, "cap_seed": C.seed() + i}], "cfg": cfg, "units": [0, 1, 2], "model": p})
    return out, r


def run_harness(cases, name):
    wd = C.workdir(name)
    cp = os.path.join(wd, "cases.ndjson")
    C.write_ndjson(cp, [{k: v for k, v in c.items() if k not in ("cfg", "units", "model")} for c in cases])
    op = os.path.join(wd, "obs.ndjson")
    C.qv(["dp-run"], stdin_path=cp, stdout_path=op, timeout=6000)
    return C.read_ndjson(op), wd


# ---------------------------------------------------------------------------------------------
# facts

def val(c):
    if c is None:
        return None
    if isinstance(c, dict):
        return relenc.float_of(c["r"]) if "r" in c else None
    return c


def rows_of(x):
    return x["rows"] if x else []


def flatten_events(e, out):
    if e["k"] == "Composed":
        for x in e["events"]:
            flatten_events(x, out)
    elif e["k"] != "NoOp":
        out.append(e)
    return out


def expected_groups(case):
    """Exact aggregates of the data, per group, as sets of admissible values."""
    cfg = case["cfg"]
    rows = [r for r in case["dbs"][0]["orders"] if not cfg["where"] or (r[2] is not None and r[2] > 0)]
    groups = ([0, 1] if cfg["keys"] == "public" else sorted({r[1] for r in rows})) if cfg["grouped"] else [None]
    out = []
    for g in groups:
        vs = [r[2] for r in rows if (g is None or r[1] == g) and r[2] is not None]
        nonempty = any(True for r in rows if g is None or r[1] == g)
        agg = cfg["agg"]
        if agg in ("count_distinct", "sum_distinct"):
            vs = sorted(set(vs))
        n = len(vs)
        allowed = []
        if agg in ("count", "count_distinct"):
            allowed = [n]
        elif agg in ("sum", "sum_distinct"):
            allowed = [sum(vs)] if n else [0, None]
        elif agg == "avg":
            allowed = [sum(vs) / n] if n else [0, None]
        else:
            if n == 0:
                allowed = [0, None]
            else:
                m = sum(vs) / n
                pop = sum((x - m) ** 2 for x in vs) / n
                samp = sum((x - m) ** 2 for x in vs) / (n - 1) if n > 1 else None
                allowed = [pop] + ([samp] if samp is not None else [None, 0])
                if agg == "std":
                    allowed = [math.sqrt(a) if isinstance(a, (int, float)) else a for a in allowed]
        out.append({"key": g, "allowed": allowed, "must": nonempty if cfg["grouped"] else True})
    return out


def facts(case, o):
    """Numeric facts of one case, rank-encoded for TLC."""
    cfg = case["cfg"]
    rec = {"id": case["id"], "ok": o["stages"].get("rewrite") == "ok", "panic": any(str(v).startswith("panic") for v in o["stages"].values()),
           "sens": [], "bounds": [], "applied": [], "recorded": [], "tau_used": {"has": False, "eps": 0, "delta": 0},
           "tau_recorded": {"has": False, "eps": 0, "delta": 0}, "budget_ok": True, "tau_ok": True, "accounted": True,
           "keys": [], "unit_groups": [], "cu": cfg["cu"], "exact": []}
    if not rec["ok"]:
        rec["error"] = json.dumps(o["stages"])[:300]
        return rec, {}
    rk = relenc.Ranker()
    nums = []

    def N(x):
        nums.append(x)
        return ("n", len(nums) - 1)

    evs = o["events"]
    clip = {}
    ambiguous = False   # the events are keyed by column name: two sub-Reduces (DISTINCT splits) may use one name for different mechanisms

    def put(d, k, v):
        nonlocal ambiguous
        if k in d and d[k] != v:
            ambiguous = True
        d[k] = v
    for e in evs:
        if e.get("ev") == "l2_clipped_sums":
            for name, col, c in e["clippings"]:
                put(clip, name, c)
    gms = [e for e in evs if e.get("ev") == "gaussian_mechanisms"]
    sig_ev, bound_ev = {}, {}
    for e in gms:
        for name, s in e["sigmas"]:
            put(sig_ev, name, s)
        for name, b in e["bounds"]:
            put(bound_ev, name, b)
    taus_ev = [e for e in evs if e.get("ev") == "tau_thresholding"]
    dpr = [e for e in evs if e.get("ev") == "dp_reduce"]
    agg_mechs = [(m["map"], c, s) for m in o["mechanisms"] for c, s in m["sigmas"] if not c.startswith("_COUNT_DISTINCT_PID_")]
    tau_mechs = [(m["map"], c, s) for m in o["mechanisms"] for c, s in m["sigmas"] if c.startswith("_COUNT_DISTINCT_PID_")]
    info = {"agg_mechs": agg_mechs, "clip": clip}
    if len({(m, c) for m, c, _ in agg_mechs}) != len({c for _, c, _ in agg_mechs}):
        ambiguous = True
    rec["ambiguous"] = ambiguous
    if ambiguous and "multi" in cfg:
        # which clip bound belongs to which sigma cannot be told from the names: nothing is claimed about this list
        return rec, info
    # ---- C01 bounds
    for mp, col, s in agg_mechs:
        rec["bounds"].append({"col": col, "clip": N(clip.get(col, -1.0)), "bound": N(bound_ev.get(col, -2.0)), "sigma_ir": N(s), "sigma_ev": N(sig_ev.get(col, -3.0))})
    # every mechanism the events announce with a positive sigma must be in the IR
    ir_cols = {c for _, c, _ in agg_mechs}
    rec["accounted"] = all((c in ir_cols) for c, s in sig_ev.items() if s > 0)
    # ---- C01 sensitivity: pre-noise relations on D and on D minus one unit
    runs = {(r["db"], r["random"]): r for r in o["runs"]}
    base = runs.get((0, 0))

    def pre_table(run, mp):
        for p in run.get("prenoise", []):
            if p["map"] == mp and "rows" in p:
                return p["rows"]
        return None

    def released_keys(run):
        f = run.get("final")
        if not f or not cfg["grouped"]:
            return None
        return sorted(json.dumps(r[0]) for r in f["rows"])

    for mp in sorted({m for m, _, _ in agg_mechs}):
        cols = [c for m, c, _ in agg_mechs if m == mp]
        t0 = pre_table(base, mp) if base else None
        if t0 is None:
            continue
        kidx = [i for i, c in enumerate(t0["cols"]) if c not in cols]
        for di in range(1, len(case["dbs"])):
            r1 = runs.get((di, 0))
            t1 = pre_table(r1, mp) if r1 else None
            if t1 is None:
                continue
            same_release = cfg["keys"] == "public" or not cfg["grouped"] or released_keys(base) == released_keys(r1)
            for c in cols:
                ci = t0["cols"].index(c)
                a = {json.dumps([r[i] for i in kidx]): (val(r[ci]) or 0.0) for r in t0["rows"]}
                b = {json.dumps([r[i] for i in kidx]): (val(r[ci]) or 0.0) for r in t1["rows"]}
                d2 = sum((a.get(k, 0.0) - b.get(k, 0.0)) ** 2 for k in set(a) | set(b))
                cb = clip.get(c, 0.0)
                rec["sens"].append({"col": c, "unit": case["units"][di - 1], "dist2": N(d2), "c2": N(cb * cb * (1 + 1e-9) + 1e-12), "checked": bool(same_release)})
    # ---- C03
    def effective(col, cb):
        """the sensitivity the noise has to cover: the clip bound, or the largest contribution the declared types allow
        (|v| <= 2, v^2 <= 4, at most MAXROWS rows per unit) when the clip bound is looser than that -- the range
        propagation of v^2 over a signed column gives a clip bound of f64::MAX, which no sigma can be a multiple of"""
        base = 1.0 if col.startswith("_COUNT_") else 4.0 if col.startswith("_SUM_SQUARE_") else 2.0
        return min(cb, base * MAXROWS)

    for mp, col, s in agg_mechs:
        cb = clip.get(col, 0.0)
        if s > 0 and cb > 0:
            rec["applied"].append(N(s / effective(col, cb)))
    flat = flatten_events(o["dp_event"], [])
    for e in flat:
        if e["k"] == "Gaussian":
            rec["recorded"].append(N(e["nm"]))
    ed = [e for e in flat if e["k"] == "EpsilonDelta"]
    if taus_ev:
        rec["tau_used"] = {"has": True, "eps": N(taus_ev[0]["epsilon"]), "delta": N(taus_ev[0]["delta"])}
    if ed:
        rec["tau_recorded"] = {"has": True, "eps": N(sum(e["epsilon"] for e in ed)), "delta": N(sum(e["delta"] for e in ed))}
    # numeric: the applied noise fits the budget handed to the compiler (classical Gaussian calibration, basic composition)
    if dpr:
        eps_tot, del_tot = dpr[0]["epsilon"], dpr[0]["delta"]
        eps_used = sum(e["epsilon"] for e in taus_ev)
        del_used = sum(e["delta"] for e in taus_ev)
        ratios = [s / effective(c, clip[c]) for _, c, s in agg_mechs if s > 0 and clip.get(c, 0.0) > 0]
        if ratios:
            if del_tot - del_used <= 0:
                rec["budget_ok"] = False
            else:
                eps_used += min_epsilon(ratios, del_tot - del_used)
        rec["budget_ok"] = rec["budget_ok"] and eps_used <= eps_tot * (1 + 1e-9) and del_used <= del_tot * (1 + 1e-9)
        info["budget"] = {"eps_total": eps_tot, "eps_needed": eps_used, "delta_total": del_tot}
    # tau in the IR is at least the tau the reserved share requires (recomputed independently)
    for tf in o["tau_filters"]:
        if dpr:
            e_s, d_s, cu = dpr[0]["epsilon"] * dpr[0]["tau_share"], dpr[0]["delta"] * dpr[0]["tau_share"], dpr[0]["max_groups"]
            need = 1.0 + nm(e_s, d_s) * math.sqrt(cu) * norm_ppf((1.0 - d_s) ** (1.0 / cu))
            if tf["tau"] < need * (1 - 1e-6):
                rec["tau_ok"] = False
            info["tau"] = {"ir": tf["tau"], "required": need}
    # ---- C04: released keys
    if cfg["grouped"]:
        for (di, ri), run in sorted(runs.items()):
            if di != 0 or "final" not in run:
                continue
            rel = {val(r[0]) for r in run["final"]["rows"]}
            noise_g = gnoise(case["randoms"][ri]["noise"])
            if cfg["keys"] == "public":
                for k in rel:
                    rec["keys"].append({"released": True, "public": k in (0, 1), "cpn": N(0.0), "tau": N(0.0), "single": False, "noise_pos": False})
                continue
            counts, holders = {}, {}
            for mp, col, s in tau_mechs:
                t = pre_table(run, mp)
                if t is None:
                    continue
                ci = t["cols"].index(col)
                ki = [i for i in range(len(t["cols"])) if i != ci][0]
                for r in t["rows"]:
                    counts[val(r[ki])] = (val(r[ci]) or 0.0, s)
                for p in run["prenoise"]:
                    if p["map"] == mp and "input_rows" in p:
                        per_unit = {}
                        for r in p["input_rows"]["rows"]:
                            per_unit.setdefault(json.dumps(r[0]), set()).add(json.dumps(r[1:]))
                        if ri == 0:
                            rec["unit_groups"] += [len(v) for v in per_unit.values()]
            tau = o["tau_filters"][0]["tau"] if o["tau_filters"] else math.inf
            rows = [r for r in case["dbs"][0]["orders"] if not cfg["where"] or (r[2] is not None and r[2] > 0)]
            for k in sorted({r[1] for r in rows} | rel):
                cnt, s = counts.get(k, (0.0, 0.0))
                units_holding = len({r[0] for r in rows if r[1] == k})
                rec["keys"].append({"released": k in rel, "public": False, "cpn": N(cnt + s * noise_g), "tau": N(tau),
                                    "single": units_holding <= 1, "noise_pos": noise_g > 0})
    # ---- C09: exact when noise and clipping are inactive
    model = case["model"]
    if base and "final" in base and not model.get("active", True) and (cfg["keys"] == "public" or not cfg["grouped"]):
        f = base["final"]
        fin = {}
        for r in f["rows"]:
            fin[val(r[0]) if cfg["grouped"] else None] = r[-1]
        for g in expected_groups(case):
            present = g["key"] in fin
            fv = fin.get(g["key"])
            rec["exact"].append({"present": present, "must": g["must"],
                                 "final": ("c", fv), "allowed": [("c", a) for a in g["allowed"]]})
        info["expected"] = expected_groups(case)
        info["final"] = f
    # ---- rank encoding
    for x in nums:
        rk.add_num(x)

    def reg(c):
        v = c[1]
        relenc.register_cell(rk, v if not isinstance(v, float) else {"r": v})
    for e in rec["exact"]:
        reg(e["final"])
        for a in e["allowed"]:
            reg(a)
    rk.freeze()

    def enc(x):
        if isinstance(x, tuple) and x[0] == "n":
            return rk.num(nums[x[1]])
        if isinstance(x, tuple) and x[0] == "c":
            v = x[1]
            return relenc.enc_cell(rk, v if not isinstance(v, float) else {"r": v})
        if isinstance(x, dict):
            return {k: enc(v) for k, v in x.items()}
        if isinstance(x, list):
            return [enc(v) for v in x]
        return x
    return enc(rec), info


JUDGE_PROP = {"Sensitivity": "C01", "SameBound": "C01",
              "EveryMechanismRecorded": "C03", "TauRecorded": "C03", "BudgetRespected": "C03", "MechanismsAccounted": "C03",
              "ReleasedOnlyIfPublicOrOverTau": "C04", "SingletonNeverAtNonPositiveNoise": "C04", "TauLargeEnough": "C04", "CappedContribution": "C04",
              "Exact": "C09", "NoPanic": "C18"}


def key_of(judge, case):
    cfg = case["cfg"]
    shape = ("grouped/" + cfg["keys"]) if cfg["grouped"] else "ungrouped"
    if judge == "Exact":
        return f"Exact/{cfg['agg']}"
    if judge in ("Sensitivity", "SameBound"):
        return f"{judge}/{cfg['agg']}/{shape}"
    if "multi" in cfg:
        return f"{judge}/{shape}/list:{'+'.join(cfg['multi'])}"
    return f"{judge}/{shape}"


def run(tier):
    key = cache_key(tier)
    cdir = os.path.join(C.WORK, "cache")
    os.makedirs(cdir, exist_ok=True)
    cpath = os.path.join(cdir, f"dp_{key}.json")
    if os.path.exists(cpath):
        C.log(f"[dp] using cached engine run {key}")
        res = json.load(open(cpath))
        res["from_cache"] = True
        return res
    t0 = time.time()
    cases, info = explore(tier)
    multi, rm = multi_cases(len(cases))
    info["multi_aggregate_lists"] = len(multi)
    cases = cases + multi
    obs, wd = run_harness(cases, "dp")
    recs, infos = [], []
    for c, o in zip(cases, obs):
        r, i = facts(c, o)
        if "multi" in c["cfg"]:
            # these lists are compiled for the accounting judges only: nothing else is claimed about them
            r.update({"sens": [], "keys": [], "unit_groups": [], "exact": [], "bounds": []})
        recs.append(r)
        infos.append(i)
    info["multi_aggregate_lists_skipped_as_ambiguous"] = sum(1 for c, r in zip(cases, recs) if "multi" in c["cfg"] and r.get("ambiguous"))
    info["multi_aggregate_lists_with_mechanisms_judged"] = sum(1 for c, r in zip(cases, recs) if "multi" in c["cfg"] and r.get("applied"))
    tp = os.path.join(wd, "trace.ndjson")
    C.write_ndjson(tp, recs)
    tr, fails, _ = C.validate_trace("Trace_DP", "Trace_DP.cfg", tp, "dp_judge", timeout=3000)
    failures = []
    for i, judge in fails:
        c, o = cases[i - 1], obs[i - 1]
        sample = {"sql": c["sql"], "cfg": c["cfg"], "params": c["params"], "rows": c["dbs"][0]["orders"], "pu": c["pu"],
                  "facts": {k: v for k, v in infos[i - 1].items() if k in ("expected", "final", "clip", "budget", "tau")},
                  "error": recs[i - 1].get("error")}
        failures.append({"prop": JUDGE_PROP[judge], "judge": judge, "key": key_of(judge, c), "sample": sample})
    # binding self-test: corrupt recorded facts and require the judges to notice
    import copy
    st = {}
    for r in recs:
        if r["ok"] and r["sens"] and r["bounds"]:
            rr = copy.deepcopy(r)
            rr["sens"][0]["dist2"] = rr["sens"][0]["c2"] + 1
            rr["sens"][0]["checked"] = True
            p = os.path.join(wd, "selftest.ndjson")
            C.write_ndjson(p, [rr])
            _, f, _ = C.validate_trace("Trace_DP", "Trace_DP.cfg", p, "dp_selftest")
            st["distance_above_bound_flagged"] = any(j == "Sensitivity" for _, j in f)
            rr = copy.deepcopy(r)
            rr["recorded"] = [x + 1000 for x in rr["recorded"]]
            C.write_ndjson(p, [rr])
            _, f, _ = C.validate_trace("Trace_DP", "Trace_DP.cfg", p, "dp_selftest")
            st["under_reported_loss_flagged"] = (not rr["applied"]) or any(j == "EveryMechanismRecorded" for _, j in f)
            if rr["applied"]:
                break
    if not st or not all(st.values()):
        raise C.ToolError(f"binding self-test failed: {st}")
    ok = [r for r in recs if r["ok"]]
    res = {
        "explore": info, "cases": len(cases), "compiled": len(ok),
        "stages": {},
        "sensitivity_pairs": sum(len(r["sens"]) for r in ok), "sensitivity_pairs_checked": sum(1 for r in ok for s in r["sens"] if s["checked"]),
        "sensitivity_pairs_clipped": 0,
        "mechanisms": sum(len(r["bounds"]) for r in ok), "thresholdings": sum(1 for r in ok if r["tau_used"]["has"]),
        "keys_observed": sum(len(r["keys"]) for r in ok), "keys_released_private": sum(1 for r in ok for k in r["keys"] if k["released"] and not k["public"]),
        "exact_cases": sum(1 for r in ok if r["exact"]), "exact_groups": sum(len(r["exact"]) for r in ok),
        "by_agg": {}, "failures": failures, "binding_selftest": st, "trace_cmd": tr.cmd,
        "samples": [{"sql": c["sql"], "rows": c["dbs"][0]["orders"], "params": c["params"],
                     "final": (o["runs"][0].get("final") if o.get("runs") else None)} for c, o in list(zip(cases, obs))[:: max(1, len(cases) // 5)]][:5],
        "wall_s": round(time.time() - t0, 1), "from_cache": False,
    }
    for c, r in zip(cases, recs):
        a = c["cfg"]["agg"]
        res["by_agg"][a] = res["by_agg"].get(a, 0) + 1
        st_ = "ok" if r["ok"] else r.get("error", "?")[:80]
        res["stages"][st_] = res["stages"].get(st_, 0) + 1
    with open(cpath, "w") as f:
        json.dump(res, f)
    return res


def report(pid, tier, t0, text):
    res = run(tier)
    rep = C.Reporter(pid)
    for f in res["failures"]:
        if f["prop"] == pid:
            rep.fail(f["key"], f"judge {f['judge']} failed on the real differentially-private rewriting", {"engine": "dp-run", "case": f["sample"]})
    code, viol, known = rep.finish()
    nontrivial = {"C01": res["sensitivity_pairs_checked"], "C03": res["mechanisms"], "C04": res["keys_observed"], "C09": res["exact_groups"]}[pid]
    coverage = {
        "states": res["explore"]["states_generated"], "transitions": res["explore"]["states_generated"],
        "traces_validated_against_impl": res["compiled"], "samples": res["samples"],
        "evaluations": res["cases"], "distinct_nontrivial": nontrivial,
        "rule": "states of spec/DPPipeline.tla visited by TLC in simulation (aggregate x grouped/ungrouped x public/private keys x group cap x multiplicity x filter, databases of <= 4 rows over 3 units, 2 keys, values 0..2 and NULL); distinct (configuration, database); non-trivial counts the judged items of this property (neighbour pairs / mechanisms / keys / exact groups)",
        "exhaustive": False,
        "engine": {k: res[k] for k in ("explore", "cases", "compiled", "stages", "sensitivity_pairs", "sensitivity_pairs_checked", "mechanisms",
                                        "thresholdings", "keys_observed", "keys_released_private", "exact_cases", "exact_groups", "by_agg",
                                        "binding_selftest", "from_cache")},
        "failures_by_key": {k: v["count"] for k, v in rep.by_key.items()},
        "known_findings_reproduced": known, "checker_cmd": res.get("trace_cmd", ""),
    }
    C.write_evidence(pid, tier, "model_checking", coverage, text, time.time() - t0, viol)
    return code
