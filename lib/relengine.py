"""The relational engine shared by C07 / C08 / C14 (and feeding C16 / C18):
TLC explores spec/QueryShapes.tla (exhaustively with small bounds, and by simulation), every visited
(query, database) state is printed as SQL, compiled by the real code, executed on SQLite (original text,
rendered text, every intermediate node), and the recorded rows are judged by TLC with
spec/Trace_RelAlg.tla."""
import hashlib
import json
import os
import time

import common as C
import relenc
import sqlgen

ENGINE_FILES = ["spec/RelAlg.tla", "spec/QueryShapes.tla", "spec/MC_RelAlg.tla", "spec/Trace_RelAlg.tla",
                "lib/relengine.py", "lib/relenc.py", "lib/sqlgen.py", "lib/common.py"]


def cache_key(tier):
    h = hashlib.sha1()
    for f in ENGINE_FILES:
        h.update(open(os.path.join(C.ROOT, f), "rb").read())
    h.update(open(C.QV, "rb").read())
    h.update(f"{tier}/{C.seed()}".encode())
    return h.hexdigest()[:16]


def explore(tier):
    """Returns (cases, stats): the REPLAY payloads of the TLC runs."""
    runs = []
    if tier == "quick":
        plan = [("sim", dict(num=600, depth=18, steps=5, rows=3))]
    else:
        plan = [("sim", dict(num=6000, depth=20, steps=6, rows=3))]
    payloads = []
    for kind, p in plan:
        consts = {"Sample": "TRUE", "MaxRows": p["rows"], "MaxSteps": p["steps"]}
        r = C.tlc("MC_RelAlg", "MC_RelAlg_sim.cfg", "rel_" + kind, workers=1, timeout=3000, constants=consts,
                  extra=["-simulate", "num=%d" % p["num"], "-depth", str(p["depth"]), "-seed", str(C.seed() + 1)])
        if "Error:" in r.out or r.rc not in (0,):
            C.require_model_ok(r, "QueryShapes.tla (simulation)")
        m = [l for l in r.out.splitlines() if l.startswith("The number of states generated")]
        states = int(m[0].split(":")[1]) if m else 0
        pl = r.json_payloads("REPLAY")
        runs.append({"mode": kind, "params": p, "states_generated": states, "cases": len(pl), "cmd": r.cmd, "wall_s": round(r.wall, 1)})
        payloads += pl
    return payloads, runs


def build_cases(payloads):
    cases, seen = [], set()
    for p in payloads:
        sql = sqlgen.query(p["q"])
        key = sql + "|" + json.dumps(p["db"], sort_keys=True)
        if key in seen:
            continue
        seen.add(key)
        i = len(cases)
        q = p["q"]
        okeys = sqlgen.root_order(q)
        total = bool(okeys) and q["k"] == "order" and len(okeys) == len(q["q"]["items"]) if q["k"] == "order" else False
        cases.append({
            "id": i, "sql": sql, "tables": sqlgen.tables(p["db"], variant=i % 2),
            "spec_rows": [[sqlgen.cell(v) for v in r] for r in p["res"]["rows"]],
            "okeys": okeys, "total": total, "last": p["last"], "steps": p["steps"], "q": q,
        })
    return cases


def run(tier):
    key = cache_key(tier)
    cdir = os.path.join(C.WORK, "cache")
    os.makedirs(cdir, exist_ok=True)
    cpath = os.path.join(cdir, f"rel_{key}.json")
    if os.path.exists(cpath):
        C.log(f"[rel] using cached engine run {key}")
        res = json.load(open(cpath))
        res["from_cache"] = True
        return res
    t0 = time.time()
    payloads, runs = explore(tier)
    cases = build_cases(payloads)
    wd = C.workdir("rel")
    cp = os.path.join(wd, "cases.ndjson")
    C.write_ndjson(cp, [{"id": c["id"], "sql": c["sql"], "tables": c["tables"]} for c in cases])
    op = os.path.join(wd, "obs.ndjson")
    C.qv(["sql-run"], stdin_path=cp, stdout_path=op, timeout=3000)
    obs = C.read_ndjson(op)
    assert len(obs) == len(cases)
    recs = [relenc.encode(o, c) for o, c in zip(obs, cases)]
    tp = os.path.join(wd, "trace.ndjson")
    C.write_ndjson(tp, recs)
    tr, fails, drifts = validate(tp, "rel_judge")
    res = summarise(cases, obs, recs, fails, drifts, runs)
    # binding self-test: corrupt one rendered row / one declared bound and require a flag
    res["binding_selftest"] = selftest(recs, wd)
    res["wall_s"] = round(time.time() - t0, 1)
    res["trace_cmd"] = tr.cmd
    res["from_cache"] = False
    # the compiled cases themselves (C16 / C17 draw their pools from them: from the cache, never from a left-over work directory)
    res["case_list"] = [{"id": c["id"], "sql": c["sql"], "tables": c["tables"]} for c in cases]
    with open(cpath, "w") as f:
        json.dump(res, f)
    return res


def validate(trace_path, name):
    r = C.tlc("Trace_RelAlg", "Trace_RelAlg.cfg", name, workers=1, timeout=3000, env={"TRACE": trace_path}, deque=True)
    if not r.tagged("ACCEPTED"):
        tail = "\n".join(l for l in r.out.splitlines() if not l.startswith(("Parsing", "Semantic", "Linting")))[-3000:]
        raise C.ToolError(f"trace {trace_path} was not consumed by Trace_RelAlg (rc={r.rc}):\n{tail}")
    fails = [json.loads("[" + b + "]") for b in r.tagged("JUDGE")]
    drifts = [json.loads("[" + b + "]") for b in r.tagged("DRIFT")]
    return r, fails, drifts


def selftest(recs, wd):
    out = {}
    import copy
    # (a) change one value of a rendered result
    for k, r in enumerate(recs):
        if r["outcome"] == "ok" and r["cmp"] == 1 and r["rend"] and r["rend"][0]:
            rr = copy.deepcopy(r)
            rr["rend"][0][0] = [3, 12345, 0]
            p = os.path.join(wd, "selftest_a.ndjson")
            C.write_ndjson(p, [rr])
            _, f, _ = validate(p, "rel_selftest_a")
            out["corrupted_rendered_value_flagged"] = any(x[1] == "SameRows" for x in f)
            break
    # (b) drop one row of an executed node whose declared size is exact
    for k, r in enumerate(recs):
        ns = [n for n in r["nodes"] if n["exec"] and n["rows"] and n["size"] == [[len(n["rows"]), len(n["rows"])]]] if r["outcome"] == "ok" else []
        if ns:
            rr = copy.deepcopy(r)
            for n in rr["nodes"]:
                if n["exec"] and n["rows"] and n["size"] == [[len(n["rows"]), len(n["rows"])]]:
                    n["rows"] = n["rows"][1:]
                    break
            p = os.path.join(wd, "selftest_b.ndjson")
            C.write_ndjson(p, [rr])
            _, f, _ = validate(p, "rel_selftest_b")
            out["dropped_row_flagged"] = any(x[1] == "SizeContains" for x in f)
            break
    if not out or not all(out.values()):
        raise C.ToolError(f"binding self-test failed: {out}")
    return out


JUDGE_PROP = {
    "TypeContains": "C07", "NullOnlyIfOptional": "C07", "SizeContains": "C07",
    "UniqueHolds": "C14",
    "SameColumns": "C08", "SameRows": "C08", "SameOrder": "C08", "SameSequence": "C08",
    "NoPanic": "C18",
    "ReparseSchema": "C16", "ReparseRows": "C16",
}


DOMINANT = ("having(aggregate_of_group_key)", "having(select_alias_shadows_column)", "groupby(alias_shadows_merged_join_column)")


def col_names(e, acc):
    if isinstance(e, dict):
        if e.get("k") == "col":
            acc.append(e["n"])
        for v in e.values():
            col_names(v, acc)
    elif isinstance(e, list):
        for v in e:
            col_names(v, acc)
    return acc


def features(q):
    """Constructs of a query term (for keys of whole-query findings)."""
    feats = set()

    def walk_q(x):
        k = x["k"]
        if k == "select":
            if x["distinct"]:
                feats.add("distinct")
            if x["group"]:
                feats.add("groupby%d" % len(x["group"]))
            if x["having"]["k"] != "none":
                gk = [json.dumps(g, sort_keys=True) for g in x["group"]]

                def agg_args(e, acc):
                    if isinstance(e, dict):
                        if e.get("k") == "agg":
                            acc.append(json.dumps(e["e"], sort_keys=True))
                        for v in e.values():
                            agg_args(v, acc)
                    return acc
                on_key = any(a in gk for a in agg_args(x["having"], []))
                # a select alias that is also the name of a column the HAVING refers to (and is not that column itself)
                hcols = set(col_names(x["having"], []))
                shadow = any(it["as"] in hcols and not (it["e"].get("k") == "col" and it["e"]["n"] == it["as"]) for it in x["items"])
                if on_key:
                    feats.add("having(aggregate_of_group_key)")
                if shadow:
                    feats.add("having(select_alias_shadows_column)")
                if not on_key and not shadow:
                    feats.add("having")
            # GROUP BY <name> where <name> is also the alias of a select item that is not that column, over a FROM whose
            # NATURAL / USING join merged the column: the name is not found among the input columns and falls to the alias
            gnames = {g["n"] for g in x["group"] if g.get("k") == "col" and not g.get("q")}
            shadow_g = any(it["as"] in gnames and not (it["e"].get("k") == "col" and it["e"]["n"] == it["as"]) for it in x["items"])

            def merged(f):
                return f["k"] == "join" and (f["natural"] or f["using"] or merged(f["l"]) or merged(f["r"]))
            if shadow_g:
                feats.add("groupby(alias_shadows_merged_join_column)" if merged(x["from"]) else "groupby(alias_shadows_column)")
            if x["where"]["k"] != "none":
                feats.add("where")
            names = [it["as"] for it in x["items"]]
            if len(set(names)) < len(names):
                feats.add("dupnames")
            walk_f(x["from"])
        elif k == "order":
            feats.add("order" + ("+limit" if x["limit"] >= 0 else "") + ("+offset" if x["offset"] >= 0 else ""))
            walk_q(x["q"])
        elif k == "setop":
            feats.add(x["op"] + ("_all" if x["all"] else ""))
            walk_q(x["l"])
            walk_q(x["r"])
        elif k == "with":
            feats.add("cte")
            walk_q(x["def"])
            walk_q(x["body"])

    def walk_f(f):
        if f["k"] == "sub":
            feats.add("derived")
            walk_q(f["q"])
        elif f["k"] == "join":
            feats.add("join_" + f["kind"] + ("_natural" if f["natural"] else "_using" if f["using"] else ""))
            walk_f(f["l"])
            walk_f(f["r"])

    walk_q(q)
    return feats


def feature_sig(case):
    """Key of a whole-query finding: the defect signatures present, else every construct of the (minimised) query."""
    feats = features(case["q"])
    # a query showing several known defect signatures is attributed to the first one (in the order of DOMINANT)
    dom = [f for f in DOMINANT if f in feats]
    if dom:
        return dom[0]
    return "+".join(sorted(feats)) or "plain"


def candidates(q):
    """Smaller variants of a query term (for the minimisation of whole-query failures)."""
    out = []
    k = q["k"]
    if k == "with":
        out.append(q["def"])
    elif k == "order":
        out.append(q["q"])
        if q["limit"] >= 0 and q["keys"]:
            out.append(dict(q, limit=-1, offset=-1))
    elif k == "setop":
        out += [q["l"], q["r"]]
    elif k == "select":
        f = q["from"]
        if f["k"] == "sub":
            out.append(f["q"])
        none = {"k": "none"}
        if q["where"]["k"] != "none":
            out.append(dict(q, where=none))
            w = q["where"]
            if w["k"] == "bin" and w["op"] in ("and", "or"):
                out += [dict(q, where=w["l"]), dict(q, where=w["r"])]
            if w["k"] == "not":
                out.append(dict(q, where=w["e"]))
        if q["having"]["k"] != "none":
            out.append(dict(q, having=none))
        if q["distinct"]:
            out.append(dict(q, distinct=False))
        if len(q["items"]) > 1:
            for i in range(len(q["items"])):
                out.append(dict(q, items=q["items"][:i] + q["items"][i + 1:]))
        if len(q["group"]) > 1:
            keyexprs = [json.dumps(it["e"], sort_keys=True) for it in q["items"]]
            for i, g in enumerate(q["group"]):
                if json.dumps(g, sort_keys=True) not in keyexprs:
                    out.append(dict(q, group=q["group"][:i] + q["group"][i + 1:]))
    return out


def db_candidates(tables):
    out = []
    for ti, t in enumerate(tables):
        for ri in range(len(t["rows"])):
            nt = dict(t, rows=t["rows"][:ri] + t["rows"][ri + 1:])
            if "size" in nt:
                nt["size"] = len(nt["rows"])
            else:
                nt["size_ivs"] = [[0, len(nt["rows"]) + 1]]
            out.append(tables[:ti] + [nt] + tables[ti + 1:])
    return out


def judge_batch(batch, name):
    """batch: list of (q, tables); returns, per element, the set of failed whole-query judges (or None)."""
    wd = C.workdir(name)
    cp = os.path.join(wd, "cases.ndjson")
    cases = []
    for i, (q, tables) in enumerate(batch):
        try:
            sql = sqlgen.query(q)
        except Exception:
            sql = "SELECT"
        okeys = sqlgen.root_order(q)
        cases.append({"id": i, "sql": sql, "tables": tables, "okeys": okeys, "total": False, "q": q})
    C.write_ndjson(cp, [{"id": c["id"], "sql": c["sql"], "tables": c["tables"]} for c in cases])
    out = C.qv(["sql-run"], stdin_path=cp)
    obs = [json.loads(l) for l in out.splitlines() if l.strip()]
    recs = [relenc.encode(o, c) for o, c in zip(obs, cases)]
    tp = os.path.join(wd, "trace.ndjson")
    C.write_ndjson(tp, recs)
    _, fails, _ = validate(tp, name + "_t")
    res = [set() for _ in batch]
    for i, judge, node in fails:
        if node == 0:
            res[i - 1].add(judge)
    return res, cases, obs


def minimise(case, judge, budget=12):
    """Greedy minimisation of a whole-query failure: returns the smallest (q, tables) still failing `judge`."""
    q, tables = case["q"], case["tables"]
    for _ in range(budget):
        batch = [(c, tables) for c in candidates(q)] + [(q, t) for t in db_candidates(tables)]
        if not batch:
            break
        res, _, _ = judge_batch(batch, "rel_min")
        hit = [b for b, r in zip(batch, res) if judge in r]
        if not hit:
            break
        hit.sort(key=lambda b: len(json.dumps(b[0])) + len(json.dumps([t["rows"] for t in b[1]])))
        q, tables = hit[0]
    return q, tables


def summarise(cases, obs, recs, fails, drifts, runs):
    failures = []   # dicts: prop, judge, key, case id, sample
    by_rec = {}
    minimal = {}    # (judge, coarse feature signature) -> (key, minimal sample)
    for i, judge, node in fails:
        by_rec.setdefault(i, []).append((judge, node))
    for i, js in sorted(by_rec.items(), key=lambda kv: len(cases[kv[0] - 1]["sql"])):
        c, o, r = cases[i - 1], obs[i - 1], recs[i - 1]
        # node-level failures: keep, per judge, only the lowest failing node (inputs come first)
        # (the judges of the declared bounds share one "lowest": a wrong size declared by a join makes the COUNT(*) range of
        # the Reduce above it wrong too -- one defect, one failure, at the node where it starts)
        BOUNDS = ("TypeContains", "NullOnlyIfOptional", "SizeContains")
        lowest = {}
        for judge, node in js:
            if node == 0:
                continue
            group = "bounds" if judge in BOUNDS else judge
            if group not in lowest or node < lowest[group]:
                lowest[group] = node
        for judge in BOUNDS:
            if "bounds" in lowest:
                lowest[judge] = lowest["bounds"]
        for judge, node in js:
            if node != 0 and lowest.get(judge) != node:
                continue
            if node:
                n = r["nodes"][node - 1]
                key = f"{judge}/{n['sig']}"
                if judge == "TypeContains":
                    # which expressions are concerned (for the key only: the verdict is TLC's): the roots of the columns
                    # whose declared type misses a value
                    roots = o["nodes"][node - 1].get("roots") or []
                    badc = failing_columns(n, judge)
                    names = sorted({roots[j] if j < len(roots) else "?" for j in badc})
                    if names:
                        key += "/" + "+".join(names)
                if judge == "SizeContains":
                    nrows = len(n["rows"])
                    hi = max(h for _, h in n["size"]) if n["size"] else -1
                    key += "/" + ("above" if nrows > hi else "below")
                sample = {"sql": c["sql"], "tables": c["tables"], "node": {"sig": n["sig"], "declared_size": o["nodes"][node - 1]["size"],
                          "declared_schema": o["nodes"][node - 1]["schema"], "rows": o["nodes"][node - 1].get("rows")}}
            elif judge == "NoPanic":
                key = f"NoPanic/{r.get('stage')}/{norm_msg(r.get('msg', ''))}"
                sample = {"sql": c["sql"], "tables": c["tables"], "message": r.get("msg")}
            else:
                # whole-query failure: the key is the construct signature of the *minimised* failing query
                coarse = (judge, feature_sig(c))
                if coarse not in minimal:
                    mq, mt = minimise(c, judge)
                    msql = sqlgen.query(mq)
                    minimal[coarse] = (f"{judge}/{feature_sig({'q': mq})}", {"sql": msql, "tables": mt, "minimised_from": c["sql"]})
                key, ms = minimal[coarse]
                sample = dict(ms, rendered=o.get("rendered"), original_result=o.get("orig"), rendered_result=o.get("rend"))
            failures.append({"prop": JUDGE_PROP[judge], "judge": judge, "key": key, "id": c["id"], "sample": sample})
    outcomes = {}
    for r in recs:
        k = r["outcome"] + (":" + r["stage"] if r["stage"] else "")
        outcomes[k] = outcomes.get(k, 0) + 1
    errs = {}
    for r in recs:
        if r["outcome"] == "err":
            m = norm_msg(r.get("msg", ""))
            errs[m] = errs.get(m, 0) + 1
    rend_errs = {}
    for r in recs:
        if r.get("rend_err"):
            m = norm_msg(r["rend_err"])
            rend_errs[m] = rend_errs.get(m, 0) + 1
    actions = {}
    for c in cases:
        actions[c["last"]] = actions.get(c["last"], 0) + 1
    ok = [r for r in recs if r["outcome"] == "ok"]
    return {
        "runs": runs,
        "cases": len(cases),
        "compiled": len(ok),
        "compared_orig_vs_rendered": sum(1 for r in ok if r["cmp"] == 1),
        "nodes_executed": sum(1 for r in ok for n in r["nodes"] if n["exec"]),
        "nodes_total": sum(len(r["nodes"]) for r in ok),
        "unique_columns_checked": sum(1 for r in ok for n in r["nodes"] if n["exec"] for c in n["cols"] if c["uniq"]),
        "ordered_cases": sum(1 for r in ok if r["okeys"]),
        "reparsed": sum(1 for r in ok if r["re"] == 1),
        "nontrivial": sum(1 for r in ok if r["cmp"] == 1 and r["orig"]),
        "outcomes": outcomes,
        "compile_errors": errs,
        "rendered_exec_errors": rend_errs,
        "actions": actions,
        "drift": [{"id": cases[i - 1]["id"], "sql": cases[i - 1]["sql"], "tables": cases[i - 1]["tables"],
                   "spec": cases[i - 1]["spec_rows"], "engine": obs[i - 1].get("orig")} for i, _ in drifts][:20],
        "drift_count": len(drifts),
        "failures": failures,
        "samples": [{"sql": c["sql"], "rows_t": c["tables"][0]["rows"], "rows_u": c["tables"][1]["rows"], "result": o.get("orig", {}).get("rows")}
                    for c, o in list(zip(cases, obs))[:: max(1, len(cases) // 6)]][:6],
    }


def failing_columns(n, judge):
    """columns of an encoded node whose declared type does not contain one of the values (same reading of the record as
    spec/Trace_RelAlg.tla: ValueInType / NullAllowed); used to refine keys, never to decide"""
    def in_ivs(r, ivs):
        return any(lo <= r <= hi for lo, hi in ivs)
    bad = set()
    for row in n["rows"]:
        for j, (v, c) in enumerate(zip(row, n["cols"])):
            null = v[0] == 0
            if judge == "NullOnlyIfOptional":
                if null and not (c["opt"] or c["k"] == 0):
                    bad.add(j)
                continue
            if null or c["k"] == 0:
                continue
            ok = (c["k"] == 1 and v[0] in (1, 2) and v[2] == 0 and in_ivs(v[1], c["ivs"])) or \
                 (c["k"] == 2 and v[0] in (1, 2) and in_ivs(v[1], c["ivs"])) or (c["k"] == 3 and v[0] == 3 and in_ivs(v[1], c["ivs"]))
            if not ok:
                bad.add(j)
    return sorted(bad)


def norm_msg(m):
    import re
    # the visitor's panic prints the whole acceptor: keep its type only
    m = re.sub(r"(Found a `\w+` state for Acceptor: )(\w+).*?( @[\w/.]+)?$", r"\1\2 ..\3", m, flags=re.S)
    m = re.sub(r'\\?"[^"\\]*\\?"', "<s>", m)
    m = re.sub(r"\b(map|reduce|join|set|field|table|relation|values|left_)_[a-z0-9_]{4}\b", "<name>", m)
    m = re.sub(r"\d+", "N", m)
    return m[:160]


def report(pid, tier, t0, level_text_assumptions, extra=None):
    """Common tail of C07 / C08 / C14: report this property's failures from the shared engine run.
    `extra(rep, tier)` may add failures of a second engine and returns its coverage."""
    res = run(tier)
    rep = C.Reporter(pid)
    mine = [f for f in res["failures"] if f["prop"] == pid]
    for f in mine:
        rep.fail(f["key"], f"judge {f['judge']} failed", {"engine": "sql-run", "case": f["sample"]})
    extra_cov = extra(rep, tier) if extra else None
    code, viol, known = rep.finish()
    sim = res["runs"]
    coverage = {
        "states": sum(r["states_generated"] for r in sim),
        "transitions": sum(r["states_generated"] for r in sim),
        "traces_validated_against_impl": res["compiled"],
        "samples": res["samples"],
        "evaluations": res["cases"],
        "distinct_nontrivial": res["nontrivial"],
        "rule": "states of spec/QueryShapes.tla visited by TLC (one SQL construct or one inserted row per action); distinct (SQL text, database) pairs; non-trivial = compiled, both texts executed and the result is non-empty",
        "exhaustive": False,
        "engine": {k: res[k] for k in ("runs", "cases", "compiled", "compared_orig_vs_rendered", "nodes_executed", "nodes_total",
                                        "unique_columns_checked", "ordered_cases", "reparsed", "outcomes", "compile_errors",
                                        "rendered_exec_errors", "actions", "drift_count", "binding_selftest", "from_cache")},
        "model_drift_samples": res["drift"][:3],
        "failures_by_key": {k: v["count"] for k, v in rep.by_key.items()},
        "known_findings_reproduced": known,
        "checker_cmd": res.get("trace_cmd", ""),
    }
    if extra_cov is not None:
        coverage["second_engine"] = extra_cov
    C.write_evidence(pid, tier, "model_checking", coverage, level_text_assumptions, time.time() - t0, viol)
    return code
