"""Rank encoding of the observations of `qv sql-run` into the records judged by spec/Trace_RelAlg.tla."""
import math

INT32 = 2**31 - 1


class Ranker:
    """Maps the numbers (and, separately, the strings) occurring in one record to dense ranks so that
    TLC decides order and equality exactly as the real values compare.  Floats closer than a relative
    1e-9 share a rank."""

    def __init__(self):
        self.nums = []
        self.strs = set()

    def add_num(self, x):
        self.nums.append(float_of(x))

    def add_str(self, s):
        self.strs.add(s)

    def freeze(self):
        xs = sorted(set(self.nums))
        self.reps = []
        for x in xs:
            if self.reps and close(self.reps[-1], x):
                continue
            self.reps.append(x)
        self.srank = {s: i for i, s in enumerate(sorted(self.strs, key=lambda s: s.encode("utf-8")))}

    def num(self, x):
        x = float_of(x)
        # nearest representative
        lo, hi = 0, len(self.reps) - 1
        best = None
        for i, r in enumerate(self.reps):
            if close(r, x):
                best = i
                break
        if best is None:
            # not registered: rank by position (should not happen)
            best = sum(1 for r in self.reps if r < x)
        return best

    def str(self, s):
        return self.srank[s]


def float_of(x):
    if isinstance(x, str):
        return {"inf": math.inf, "-inf": -math.inf, "nan": math.nan}[x]
    return float(x) if not isinstance(x, int) else x


def close(a, b):
    if a == b:
        return True
    if math.isinf(a) or math.isinf(b) or math.isnan(a) or math.isnan(b):
        return False
    return abs(a - b) <= 1e-9 * max(1.0, abs(a), abs(b))


def cells_of(rows):
    for r in rows:
        for c in r:
            yield c


def register_cell(rk, c):
    if c is None:
        return
    if isinstance(c, bool):
        rk.add_num(int(c))
    elif isinstance(c, (int, float)):
        rk.add_num(c)
    elif isinstance(c, str):
        rk.add_str(c)
    elif isinstance(c, dict) and "r" in c:
        rk.add_num(float_of(c["r"]))
    elif isinstance(c, dict) and "b" in c:
        rk.add_str("\x00blob:" + c["b"])


def enc_cell(rk, c):
    if c is None:
        return [0, 0, 0]
    if isinstance(c, bool):
        return [1, rk.num(int(c)), 0]
    if isinstance(c, int):
        return [1, rk.num(c), 0]
    if isinstance(c, float):
        return [2, rk.num(c), 0 if float(c).is_integer() else 1]
    if isinstance(c, str):
        return [3, rk.str(c), 0]
    if "r" in c:
        x = float_of(c["r"])
        frac = 0 if (not math.isinf(x) and not math.isnan(x) and float(x).is_integer()) else 1
        return [2, rk.num(x), frac]
    return [4, rk.str("\x00blob:" + c["b"]), 0]


def strip_opt(t):
    opt = False
    while t["k"] == "opt":
        opt = True
        t = t["t"]
    return t, opt


def register_type(rk, t):
    t, _ = strip_opt(t)
    if t["k"] in ("int", "float"):
        for lo, hi in t["ivs"]:
            rk.add_num(float_of(lo))
            rk.add_num(float_of(hi))
    elif t["k"] == "bool":
        rk.add_num(0)
        rk.add_num(1)
    elif t["k"] == "text":
        for lo, hi in t["ivs"]:
            rk.add_str(lo)
            rk.add_str(hi)


def enc_type(rk, t, constraint):
    t, opt = strip_opt(t)
    k = t["k"]
    col = {"k": 0, "opt": opt or k in ("any", "unit", "null"), "ivs": [], "uniq": constraint in ("unique", "pk")}
    if k == "int":
        col["k"] = 1
        col["ivs"] = [[rk.num(lo), rk.num(hi)] for lo, hi in t["ivs"]]
    elif k == "float":
        col["k"] = 2
        col["ivs"] = [[rk.num(float_of(lo)), rk.num(float_of(hi))] for lo, hi in t["ivs"]]
    elif k == "bool":
        col["k"] = 1
        col["ivs"] = [[rk.num(int(lo)), rk.num(int(hi))] for lo, hi in t["ivs"]]
    elif k == "text":
        col["k"] = 3
        col["ivs"] = [[rk.str(lo), rk.str(hi)] for lo, hi in t["ivs"]]
    return col


def clamp(x):
    return max(-INT32, min(INT32, x))


def encode(obs, case):
    """obs: one line of `qv sql-run`; case: the generated case (with the spec's result)"""
    st = obs.get("stages", {})
    rec = {"id": obs["id"], "outcome": "ok", "stage": "", "nodes": [], "cmp": 0, "onames": [], "rnames": [],
           "orig": [], "rend": [], "rend2": [], "spec": [], "has_spec": False, "okeys": [], "total": False, "re": 0, "re_schema": True}
    for stage in ("harness", "parse", "build", "render", "reparse"):
        v = st.get(stage, "ok")
        if v.startswith("panic"):
            rec["outcome"] = "panic"
            rec["stage"] = stage
            rec["msg"] = v[:300]
            return rec
    for stage in ("parse", "build", "db"):
        v = st.get(stage, "ok")
        if v.startswith("err"):
            rec["outcome"] = "err"
            rec["stage"] = stage
            rec["msg"] = v[:300]
            return rec
    rk = Ranker()
    nodes = obs.get("nodes", [])
    for n in nodes:
        for c in n["schema"]:
            register_type(rk, c["t"])
        for c in cells_of(n.get("rows", [])):
            register_cell(rk, c)
    for key in ("orig", "rend", "rend2"):
        if key in obs:
            for c in cells_of(obs[key]["rows"]):
                register_cell(rk, c)
    spec_rows = case.get("spec_rows")
    if spec_rows is not None:
        for c in cells_of(spec_rows):
            register_cell(rk, c)
    rk.freeze()
    for n in nodes:
        nr = {"sig": n["sig"], "kind": n["kind"], "exec": "rows" in n,
              "size": [[clamp(lo), clamp(hi)] for lo, hi in n["size"]],
              "cols": [enc_type(rk, c["t"], c["c"]) for c in n["schema"]],
              "rows": [[enc_cell(rk, c) for c in r] for r in n.get("rows", [])]}
        rec["nodes"].append(nr)
    if "orig" in obs and "rend" in obs:
        rec["cmp"] = 1
        rec["onames"] = obs["orig"]["cols"]
        rec["rnames"] = obs["rend"]["cols"]
        rec["orig"] = [[enc_cell(rk, c) for c in r] for r in obs["orig"]["rows"]]
        rec["rend"] = [[enc_cell(rk, c) for c in r] for r in obs["rend"]["rows"]]
        rec["okeys"] = [[i + 1, bool(a)] for i, a in case.get("okeys", [])]
        rec["total"] = bool(case.get("total", False))
    elif "orig" in obs and "rend" not in obs:
        rec["rend_err"] = st.get("exec_rend", "")[:300]
    if spec_rows is not None and "orig" in obs:
        rec["has_spec"] = True
        rec["spec"] = [[enc_cell(rk, c) for c in r] for r in spec_rows]
    rec["root_cols"], rec["re_cols"], rec["root_names"], rec["re_names"] = [], [], [], []
    if st.get("reparse") == "ok" and "reparse_schema" in obs and nodes:
        rec["re"] = 1
        root = [n for n in nodes if n.get("root")]
        rs = root[-1]["schema"] if root else []
        # A value-set type such as int{0} is typed float{0} by about one compilation in a hundred (recorded C16 finding:
        # DataType equality vs hash in the generic visitor).  The two are equal for the library; they are made equal here
        # too, so that this judge does not flicker: a Float type made of integral single values is read as the Integer one.
        def numeric_norm(t):
            if t["k"] == "opt":
                return {"k": "opt", "t": numeric_norm(t["t"])}
            if t["k"] == "float" and t.get("ivs") and all(lo == hi and float_of(lo) == int(float_of(lo)) for lo, hi in t["ivs"]):
                return {"k": "int", "ivs": [[int(float_of(lo)), int(float_of(hi))] for lo, hi in t["ivs"]]}
            return t
        rs = [dict(c, t=numeric_norm(c["t"])) for c in rs]
        obs = dict(obs, reparse_schema=[dict(c, t=numeric_norm(c["t"])) for c in obs["reparse_schema"]])
        rk2 = Ranker()
        for c in rs + obs["reparse_schema"]:
            register_type(rk2, c["t"])
        rk2.freeze()
        rec["root_cols"] = [enc_type(rk2, c["t"], c["c"]) for c in rs]
        rec["re_cols"] = [enc_type(rk2, c["t"], c["c"]) for c in obs["reparse_schema"]]
        rec["root_names"] = [c["n"] for c in rs]
        rec["re_names"] = [c["n"] for c in obs["reparse_schema"]]
        # kinds the rank encoding does not describe are compared structurally
        rec["re_schema"] = [strip_opt(c["t"])[0]["k"] for c in rs] == [strip_opt(c["t"])[0]["k"] for c in obs["reparse_schema"]]
        if "rend2" in obs:
            rec["rend2"] = [[enc_cell(rk, c) for c in r] for r in obs["rend2"]["rows"]]
        else:
            rec["rend2"] = rec["rend"]
    return rec
