"""C05 engine: TLC explores spec/PUPTracking.tla (shape of the tracked query x privacy-unit definition x tiny
database, with the model's PuNonNull / Locality on the shapes where the construction is sound); every finished
state is compiled by the real privacy-unit-preserving rewriting and executed on SQLite on D and on D restricted
to each unit; TLC judges the rows with spec/Trace_PUP.tla."""
import hashlib
import json
import os
import time

import common as C
import relenc

NULL = -9999
INT02 = {"k": "int", "ivs": [[0, 2]]}
INT01 = {"k": "int", "ivs": [[0, 1]]}


def cell(v):
    return None if v == NULL else v


def sql_of(q):
    s, kind = q["s"], {"inner": "INNER", "left": "LEFT", "right": "RIGHT", "full": "FULL"}.get(q.get("kind", ""), "")
    if s == "map":
        return "SELECT k, v FROM orders"
    if s == "filter":
        return "SELECT k, v FROM orders WHERE v > 0"
    if s == "reduce":
        return "SELECT k, SUM(v) AS s FROM orders GROUP BY k"
    if s == "union":
        return "SELECT k, v FROM orders UNION ALL SELECT k, v FROM orders WHERE v > 0"
    if s == "items_map":
        return "SELECT aid, z FROM items"
    if s == "orders_pub":
        return f"SELECT o.k AS k, o.v AS v, p.w AS w FROM orders AS o {kind} JOIN pub AS p ON o.k = p.k"
    if s == "pub_orders":
        return f"SELECT p.w AS w, o.k AS k, o.v AS v FROM pub AS p {kind} JOIN orders AS o ON p.k = o.k"
    if s == "orders_users":
        return f"SELECT o.v AS v, u.g AS g FROM orders AS o {kind} JOIN users AS u ON o.user_id = u.id"
    if s == "orders_users_k":
        return f"SELECT o.v AS v, u.id AS id FROM orders AS o {kind} JOIN users AS u ON o.k = u.g"
    if s == "reduce_pub":
        return f"SELECT r.k AS k, r.s AS s, p.w AS w FROM (SELECT k, SUM(v) AS s FROM orders GROUP BY k) AS r {kind} JOIN pub AS p ON r.k = p.k"
    raise ValueError(s)


def case_of(p, i):
    db = p["db"]
    n = 3
    tables = [
        {"name": "users", "size_ivs": [[0, n]], "rows": [], "cols": [{"n": "id", "t": INT02, "c": "unique"}, {"n": "g", "t": INT01, "c": None}]},
        {"name": "orders", "size_ivs": [[0, n]], "rows": [], "cols": [{"n": "user_id", "t": INT02, "c": None}, {"n": "k", "t": INT01, "c": None},
                                                                       {"n": "v", "t": {"k": "opt", "t": INT02}, "c": None}]},
        {"name": "pub", "size_ivs": [[0, n]], "rows": [], "cols": [{"n": "k", "t": INT01, "c": None}, {"n": "w", "t": {"k": "int", "ivs": [[1, 2]]}, "c": None}]},
        {"name": "accounts", "size_ivs": [[0, n]], "rows": [], "cols": [{"n": "aid", "t": INT02, "c": "unique"}, {"n": "uid", "t": INT02, "c": None}]},
        {"name": "items", "size_ivs": [[0, n]], "rows": [], "cols": [{"n": "aid", "t": INT02, "c": None}, {"n": "z", "t": INT01, "c": None}]},
    ]
    rows = {t: [[cell(v) for v in r] for r in db[t]] for t in ("users", "orders", "pub", "accounts", "items")}

    def restrict(u):
        mine = {r[0] for r in rows["accounts"] if r[1] == u}
        return {"users": [r for r in rows["users"] if r[0] == u], "orders": [r for r in rows["orders"] if r[0] == u], "pub": rows["pub"],
                "accounts": [r for r in rows["accounts"] if r[1] == u], "items": [r for r in rows["items"] if r[0] in mine]}
    if p["pudef"] == "direct":
        pu = [["orders", [], "user_id"], ["users", [], "id"], ["accounts", [], "uid"], ["items", [["aid", "accounts", "aid"]], "uid"]]
    else:
        # every protected table reaches users.id along its foreign keys: one step for orders and accounts, two for items
        pu = [["orders", [["user_id", "users", "id"]], "id"], ["users", [], "id"], ["accounts", [["uid", "users", "id"]], "id"],
              ["items", [["aid", "accounts", "aid"], ["uid", "users", "id"]], "id"]]
    return {"id": i, "mode": "pup", "strategy": "Hard", "hash_pu": bool(i % 2), "pu": pu, "sql": sql_of(p["q"]), "params": {},
            "tables": tables, "dbs": [rows] + [restrict(u) for u in (0, 1, 2)], "randoms": [{"noise": 1.0, "cap_seed": 1}], "model": p}


def encode(case, o):
    rec = {"id": case["id"], "ok": o["stages"].get("rewrite") == "ok", "panic": any(str(v).startswith("panic") for v in o["stages"].values()),
           "full": [], "pu": 1, "w": 1, "units": [], "model_nonnull": case["model"]["nonnull"], "model_local": case["model"]["local"]}
    if not rec["ok"]:
        rec["error"] = json.dumps(o["stages"])[:300]
        return rec
    runs = {r["db"]: r for r in o["runs"]}
    if any("final" not in r for r in runs.values()):
        rec["ok"] = False
        rec["error"] = "execution failed: " + json.dumps([r.get("final_err") for r in runs.values()])[:300]
        return rec
    cols = runs[0]["final"]["cols"]
    if "_PRIVACY_UNIT_" not in cols or "_PRIVACY_UNIT_WEIGHT_" not in cols:
        # a public rewriting: nothing is attributed to a unit
        rec["ok"] = False
        rec["error"] = "result carries no privacy unit (public rewriting)"
        return rec
    rk = relenc.Ranker()
    hashed = case["hash_pu"]

    def puval(u):
        return hashlib.md5(str(u).encode()).hexdigest() if hashed else u
    for r in runs.values():
        for c in relenc.cells_of(r["final"]["rows"]):
            relenc.register_cell(rk, c)
    for u in (0, 1, 2):
        relenc.register_cell(rk, puval(u))
    rk.freeze()
    rec["pu"] = cols.index("_PRIVACY_UNIT_") + 1
    rec["w"] = cols.index("_PRIVACY_UNIT_WEIGHT_") + 1
    rec["full"] = [[relenc.enc_cell(rk, c) for c in row] for row in runs[0]["final"]["rows"]]
    for k, u in enumerate((0, 1, 2)):
        rec["units"].append({"pu": relenc.enc_cell(rk, puval(u)), "rows": [[relenc.enc_cell(rk, c) for c in row] for row in runs[k + 1]["final"]["rows"]]})
    return rec


def run(tier):
    h = hashlib.sha1()
    for f in ["spec/PUPTracking.tla", "spec/MC_PUPTracking.tla", "spec/Trace_PUP.tla", "lib/pupengine.py", "lib/common.py", "lib/relenc.py"]:
        h.update(open(os.path.join(C.ROOT, f), "rb").read())
    h.update(open(C.QV, "rb").read())
    h.update(f"{tier}/{C.seed()}".encode())
    num = 1500 if tier == "quick" else 12000
    r = C.tlc("MC_PUPTracking", "MC_PUPTracking.cfg", "pup_sim", workers=1, timeout=3000,
              extra=["-simulate", f"num={num}", "-depth", "20", "-seed", str(C.seed() + 11)])
    if r.rc != 0 or "Error:" in r.out:
        C.require_model_ok(r, "PUPTracking.tla (simulation)")
    m = [l for l in r.out.splitlines() if l.startswith("The number of states generated")]
    states = int(m[0].split(":")[1]) if m else 0
    seen, cases = set(), []
    for p in r.json_payloads("REPLAY"):
        k = json.dumps([p["q"], p["pudef"], p["db"]], sort_keys=True)
        if k not in seen:
            seen.add(k)
            cases.append(case_of(p, len(cases)))
    wd = C.workdir("pup")
    cp = os.path.join(wd, "cases.ndjson")
    C.write_ndjson(cp, [{k: v for k, v in c.items() if k != "model"} for c in cases])
    op = os.path.join(wd, "obs.ndjson")
    C.qv(["dp-run"], stdin_path=cp, stdout_path=op, timeout=6000)
    obs = C.read_ndjson(op)
    recs = [encode(c, o) for c, o in zip(cases, obs)]
    tp = os.path.join(wd, "trace.ndjson")
    C.write_ndjson(tp, recs)
    tr, fails, drifts = C.validate_trace("Trace_PUP", "Trace_PUP.cfg", tp, "pup_judge", timeout=3000)
    return cases, obs, recs, fails, drifts, {"states": states, "cmd": r.cmd, "trace_cmd": tr.cmd, "wd": wd}
