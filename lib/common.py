"""Shared plumbing for /verif/bin/check: harness build, TLC runs, trace validation,
evidence files, known findings and the VIOLATION / KNOWN-FINDING protocol."""
import fcntl
import hashlib
import json
import os
import re
import shutil
import subprocess
import sys
import time

ROOT = os.path.dirname(os.path.dirname(os.path.abspath(__file__)))
SPEC = os.path.join(ROOT, "spec")
WORK = os.path.join(ROOT, "work")
HARNESS = os.path.join(ROOT, "harness")
QV = os.path.join(HARNESS, "target", "debug", "qv")
EVIDENCE = os.path.join(ROOT, "evidence")
REPLAYS = os.path.join(ROOT, "replays")
FINDINGS = os.path.join(ROOT, "known_findings.jsonl")
REPO = os.environ.get("VERIF_REPO", "/repo")


class ToolError(Exception):
    """The machinery itself failed (build error, TLC crash, timeout): exit 2, never a VIOLATION."""


def log(*a):
    print(*a, file=sys.stderr, flush=True)


def seed():
    try:
        return int(os.environ.get("VERIF_SEED", "0"))
    except ValueError:
        return 0


def workdir(name):
    d = os.path.join(WORK, name)
    shutil.rmtree(d, ignore_errors=True)
    os.makedirs(d, exist_ok=True)
    return d


def build_harness():
    """Rebuild the harness against /repo's current working tree (hooks on)."""
    os.makedirs(WORK, exist_ok=True)
    t0 = time.time()
    with open(os.path.join(WORK, ".build.lock"), "w") as lock:
        fcntl.flock(lock, fcntl.LOCK_EX)
        env = dict(os.environ, CARGO_NET_OFFLINE="true")
        p = subprocess.run(["cargo", "build", "--offline"], cwd=HARNESS, env=env,
                           stdout=subprocess.PIPE, stderr=subprocess.STDOUT, text=True)
    if p.returncode != 0:
        tail = "\n".join(l for l in p.stdout.splitlines() if not l.startswith("warning"))[-4000:]
        raise ToolError("harness build failed:\n" + tail)
    log(f"[build] harness up to date ({time.time()-t0:.1f}s)")
    return QV


def qv(args, stdin_path=None, stdout_path=None, timeout=3600, env=None):
    """Run the harness; returns (returncode, stdout text if not redirected)."""
    fin = open(stdin_path) if stdin_path else subprocess.DEVNULL
    fout = open(stdout_path, "w") if stdout_path else subprocess.PIPE
    try:
        p = subprocess.run([QV] + args, stdin=fin, stdout=fout, stderr=subprocess.PIPE, text=True,
                           timeout=timeout, env=dict(os.environ, **(env or {})))
    except subprocess.TimeoutExpired:
        raise ToolError(f"harness {args[0]} timed out after {timeout}s")
    finally:
        if stdin_path:
            fin.close()
        if stdout_path:
            fout.close()
    if p.returncode != 0:
        raise ToolError(f"harness {args} exited {p.returncode}: {p.stderr[-2000:]}")
    return p.stdout if not stdout_path else None


class TlcResult:
    def __init__(self, out, rc):
        self.out = out
        self.rc = rc
        m = re.search(r"(\d+) states generated, (\d+) distinct states found", out)
        self.generated = int(m.group(1)) if m else 0
        self.distinct = int(m.group(2)) if m else 0
        self.ok = rc == 0 and "No error has been found" in out or (rc == 0 and "-simulate" in out)
        self.printed = []   # PrintT'ed tuples whose first element is a tag string
        for line in out.splitlines():
            if line.startswith('<<"'):
                self.printed.append(line)

    def tagged(self, tag):
        """Lines `<<"TAG", ...>>` printed by the spec, with the tuple body as text."""
        pre = '<<"%s", ' % tag
        return [l[len(pre):-2] for l in self.printed if l.startswith(pre) and l.endswith(">>")]

    def json_payloads(self, tag):
        """For lines `<<"TAG", "<json>">>`: the decoded JSON objects."""
        res = []
        for body in self.tagged(tag):
            res.append(json.loads(json.loads(body)))
        return res

    def action_coverage(self):
        """-coverage 1 output: action name -> (distinct, total)"""
        cov = {}
        for m in re.finditer(r"<(\w+) line \d+, col \d+ to line \d+, col \d+ of module (\w+)>: (\d+):(\d+)", self.out):
            cov[m.group(1)] = (int(m.group(3)), int(m.group(4)))
        return cov


def tlc(module, cfg, name, workers=8, timeout=900, env=None, extra=None, constants=None, heap="8g",
        deque=False):
    """Run TLC on spec/<module>.tla with spec/<cfg> (or a generated cfg when `constants` overrides)."""
    md = workdir("tlc_" + name)
    cfg_path = os.path.join(SPEC, cfg)
    if constants:
        text = open(cfg_path).read()
        for k, v in constants.items():
            text, n = re.subn(r"(?m)^(\s*%s\s*=\s*).*$" % re.escape(k), r"\g<1>%s" % v, text)
            if n == 0:
                raise ToolError(f"constant {k} not in {cfg}")
        cfg_path = os.path.join(md, "gen_" + cfg)
        with open(cfg_path, "w") as f:
            f.write(text)
    jopts = "-Xss1g -Xmx%s" % heap
    if deque:
        jopts += " -Dtlc2.tool.queue.IStateQueue=StateDeque"
    e = dict(os.environ, JAVA_TOOL_OPTIONS=jopts)
    e.update(env or {})
    cmd = ["timeout", str(timeout), "tlc", "-workers", str(workers), "-metadir", os.path.join(md, "states"),
           "-cleanup", "-noGenerateSpecTE", "-config", cfg_path] + (extra or []) + [os.path.join(SPEC, module + ".tla")]
    t0 = time.time()
    p = subprocess.run(cmd, cwd=md, env=e, stdout=subprocess.PIPE, stderr=subprocess.STDOUT, text=True)
    out = p.stdout
    with open(os.path.join(md, "tlc.out"), "w") as f:
        f.write(out)
    r = TlcResult(out, p.returncode)
    r.wall = time.time() - t0
    r.cmd = " ".join(cmd)
    if p.returncode == 124:
        raise ToolError(f"TLC timed out after {timeout}s on {module}/{cfg}")
    log(f"[tlc] {module} {cfg}: rc={p.returncode} generated={r.generated} distinct={r.distinct} {r.wall:.1f}s")
    return r


def require_model_ok(r, what):
    """A failure of the *model* (not of the code) is a tool error: the spec must be repaired."""
    if r.rc != 0 or ("No error has been found" not in r.out and "Finished in" not in r.out):
        tail = "\n".join(l for l in r.out.splitlines() if not l.startswith(("Parsing", "Semantic", "Linting", '<<"REPLAY')))[-3000:]
        raise ToolError(f"model checking of {what} failed (rc={r.rc}); the specification needs attention:\n{tail}")


def validate_trace(module, cfg, trace_path, name, constants=None, timeout=1800, heap="8g"):
    """Trace validation: TLC consumes the ndjson at trace_path with spec/<module>.tla.
    Returns (result, judge_failures: list of (index, judge name), drifts: list of (index, name))."""
    r = tlc(module, cfg, name, workers=1, timeout=timeout, env={"TRACE": trace_path}, constants=constants,
            heap=heap, deque=True)
    if not r.tagged("ACCEPTED"):
        tail = "\n".join(l for l in r.out.splitlines() if not l.startswith(("Parsing", "Semantic", "Linting")))[-3000:]
        raise ToolError(f"trace {trace_path} was not consumed by {module} (rc={r.rc}):\n{tail}")
    fails, drifts = [], []
    for body in r.tagged("JUDGE"):
        i, nm = body.split(", ", 1)
        fails.append((int(i), json.loads(nm)))
    for body in r.tagged("DRIFT"):
        i, nm = body.split(", ", 1)
        drifts.append((int(i), json.loads(nm)))
    return r, fails, drifts


def qv_sharded(args, header, cases, wd, shards=8, timeout=3600, case_field="case"):
    """Run a case-replaying harness command on contiguous shards of the cases in parallel processes; the
    `case` index of every observation is shifted back to the global numbering.  Returns the observations,
    shard after shard (each shard keeps the harness's own order)."""
    from concurrent.futures import ThreadPoolExecutor
    shards = max(1, min(shards, len(cases)))
    size = (len(cases) + shards - 1) // shards
    jobs = []
    for k in range(shards):
        part = cases[k * size:(k + 1) * size]
        if not part:
            continue
        cp = os.path.join(wd, f"cases_{k}.ndjson")
        write_ndjson(cp, ([header] if header is not None else []) + part)
        jobs.append((k, cp, os.path.join(wd, f"obs_{k}.ndjson")))
    with ThreadPoolExecutor(len(jobs)) as ex:
        list(ex.map(lambda j: qv(args, stdin_path=j[1], stdout_path=j[2], timeout=timeout), jobs))
    obs = []
    for k, _, op in jobs:
        for o in read_ndjson(op):
            if case_field in o:
                o[case_field] += k * size
            obs.append(o)
        os.remove(op)
    return obs


def validate_trace_chunked(module, cfg, recs, wd, name, chunk=20000, parallel=4, constants=None, timeout=3600, heap="6g"):
    """Trace validation of a long list of independent records: TLC consumes them chunk by chunk (several
    TLC processes side by side); judge indices are returned in the global numbering (1-based)."""
    from concurrent.futures import ThreadPoolExecutor
    parts = [(k, recs[k:k + chunk]) for k in range(0, len(recs), chunk)]

    def one(p):
        k, part = p
        tp = os.path.join(wd, f"trace_{k}.ndjson")
        write_ndjson(tp, part)
        r, fails, drifts = validate_trace(module, cfg, tp, f"{name}_{k}", constants=constants, timeout=timeout, heap=heap)
        os.remove(tp)
        return r, [(i + k, j) for i, j in fails], [(i + k, j) for i, j in drifts]
    with ThreadPoolExecutor(parallel) as ex:
        res = list(ex.map(one, parts))
    fails = [f for _, fs, _ in res for f in fs]
    drifts = [d for _, _, ds in res for d in ds]
    return (res[0][0] if res else None), fails, drifts


def read_ndjson(path):
    with open(path) as f:
        return [json.loads(l) for l in f if l.strip()]


def write_ndjson(path, rows):
    with open(path, "w") as f:
        for r in rows:
            f.write(json.dumps(r, separators=(",", ":")) + "\n")


# ---------------------------------------------------------------------------------------------
# findings and reporting

def load_findings():
    out = []
    if os.path.exists(FINDINGS):
        for l in open(FINDINGS):
            l = l.strip()
            if l.startswith("{"):
                out.append(json.loads(l))
    return out


class Reporter:
    """Collects judge failures of one check and applies the findings policy."""

    def __init__(self, pid):
        self.pid = pid
        self.known = {f["key"]: f for f in load_findings() if f["property"] == pid and f.get("status") == "known"}
        self.by_key = {}      # key -> dict(count, what, sample)

    def fail(self, key, what, sample):
        e = self.by_key.setdefault(key, {"count": 0, "what": what, "sample": sample})
        e["count"] += 1

    def finish(self):
        """Print the protocol lines; returns (exit code, violation count, known count)."""
        viol = 0
        known = 0
        shutil.rmtree(os.path.join(REPLAYS, self.pid), ignore_errors=True)
        for key, e in sorted(self.by_key.items()):
            if key in self.known:
                known += 1
                print(f"KNOWN-FINDING: property={self.pid} key={key} cases={e['count']} {self.known[key].get('what', e['what'])}")
            else:
                viol += 1
                d = os.path.join(REPLAYS, self.pid)
                os.makedirs(d, exist_ok=True)
                h = hashlib.sha1(key.encode()).hexdigest()[:12]
                path = os.path.join(d, h + ".json")
                with open(path, "w") as f:
                    json.dump({"property": self.pid, "key": key, "what": e["what"], "cases": e["count"],
                               "sample": e["sample"]}, f, indent=1)
                print(f"VIOLATION property={self.pid} replay={path}")
                print(f"  key={key} cases={e['count']} {e['what']}")
        for key in self.known:
            if key not in self.by_key:
                log(f"[note] known finding {key} did not reproduce in this run")
        sys.stdout.flush()
        return (1 if viol else 0), viol, known


def write_evidence(pid, tier, level, coverage, assumptions, wall_s, violations, extra=None):
    os.makedirs(EVIDENCE, exist_ok=True)
    ev = {
        "property_id": pid,
        "tier": tier,
        "seed": seed(),
        "level": level,
        "coverage": coverage,
        "assumptions": assumptions,
        "wall_s": round(wall_s, 2),
        "violations": violations,
    }
    if extra:
        ev.update(extra)
    path = os.path.join(EVIDENCE, pid + ".json")
    tmp = path + ".tmp"
    with open(tmp, "w") as f:
        json.dump(ev, f, indent=1)
    os.replace(tmp, path)
    return path


def binding_selftest(module, cfg, trace_path, name, corrupt, constants=None):
    """Demonstrate the binding: corrupt one recorded field of a good trace and require that the
    validation flags it.  `corrupt(rows)` mutates rows in place and returns the 0-based index touched."""
    rows = read_ndjson(trace_path)
    idx = corrupt(rows)
    p = os.path.join(WORK, name + "_selftest.ndjson")
    write_ndjson(p, rows)
    _, fails, drifts = validate_trace(module, cfg, p, name + "_selftest", constants=constants)
    hit = any(i == idx + 1 for i, _ in fails) or any(i == idx + 1 for i, _ in drifts)
    return {"corrupted_record": idx + 1, "flagged": hit,
            "judges": sorted({n for i, n in fails if i == idx + 1}),
            "drift": sorted({n for i, n in drifts if i == idx + 1})}
